(* HistVersions.v — the version identifies the write.
   [HV w]: every current record is a committed write, every committed write of a run is at most as recent as the run's current
   record, two committed writes of one run with one version are the same write, versions start at 1.
   [hv_step]: from EVERY state, whatever an operation of the engine model does, it keeps [HV] as long as the Store calls it makes
   satisfy the version clause of the token theorem ([vc]: the stored version is the persisted one plus one, 1 for a new run) — and
   every record a token shows as "persisted" (the previous record of a Store, the persisted record beside an invocation, the
   answer of a Lookup / Latest, stale answers included) is a committed write ([prov]).
   With [all_tokens_ok] this gives, for every history: the version identifies the write ([version_identifies_write]) and two
   tokens that show a persisted record of one run at one version show the same record ([same_version_same_record]). *)
From WF Require Import model.Base model.RunState model.Routing model.Graph model.Counter model.Shard model.EngineBase model.Engine
  model.Monitors proofs.Hoare proofs.EngineInv proofs.EngineTokens proofs.TokenFacts proofs.Frame proofs.WaitFrame.
Open Scope list_scope.

Record HV (w : world) : Prop := mkHV {
  hv_nodup : NoDup (map r_run (w_recs w));
  hv_cur : forall x, In x (w_recs w) -> In x (w_hist w);
  hv_le : forall x, In x (w_hist w) -> exists cur, lookup_run w (r_run x) = Some cur /\ r_ver x <= r_ver cur;
  hv_uniq : forall x y, In x (w_hist w) -> In y (w_hist w) -> r_run x = r_run y -> r_ver x = r_ver y -> x = y;
  hv_pos : forall x, In x (w_hist w) -> 1 <= r_ver x;
  hv_last : forall x, In x (w_recs w) -> last_opt (filter (by_run (r_run x)) (w_hist w)) = Some x
}.

Lemma HV_frame (w w' : world) : w_recs w' = w_recs w -> w_hist w' = w_hist w -> HV w -> HV w'.
Proof.
  intros E1 E2 [H1 H2 H3 H4 H5 H6]. constructor; unfold lookup_run in *; rewrite ?E1, ?E2; assumption.
Qed.

Lemma HV_w0 : HV w0.
Proof. constructor; cbn; [constructor|intros ? []|intros ? []|intros ? ? []|intros ? []|intros ? []]. Qed.

(* the version clause of a Store token, and the provenance of the records a token shows as persisted *)
Definition vc (t : tok) : Prop :=
  match t with
  | TStore (Some p) r _ => r_ver r = r_ver p + 1 /\ r_run r = r_run p
  | TStore None r _ => r_ver r = 1
  | _ => True
  end.
Definition prov (h : list record) (t : tok) : Prop :=
  match t with
  | TStore (Some p) _ _ => In p h
  | TUser _ _ (Some p) _ _ => In p h
  | TLookup _ _ _ (Some p) => In p h
  | _ => True
  end.
Lemma prov_mono h add t : prov h t -> prov (h ++ add) t.
Proof. destruct t as [| | k key r [x|]|[p|] r a|u v [p|] n pl| | | | | | |]; cbn; auto; intros H; apply in_or_app; now left. Qed.

Lemma lookup_in_hist w run p : HV w -> lookup_run w run = Some p -> In p (w_hist w) /\ r_run p = run.
Proof. intros Hw H. rewrite lookup_run_eq in H. apply find_run_in in H as [H1 H2]. split; [apply (hv_cur w Hw), H1|exact H2]. Qed.

Lemma stale_in_hist w run p : HV w -> stale_run w run = Some p -> In p (w_hist w).
Proof.
  intros Hw. unfold stale_run. destruct (rev (filter (fun r => N.eqb (r_run r) run) (w_hist w))) as [|a [|b l]] eqn:E.
  - intros H. apply (lookup_in_hist w run p Hw H).
  - intros H. apply (lookup_in_hist w run p Hw H).
  - intros H. inversion H; subst b.
    assert (Hin : In p (rev (filter (fun r => N.eqb (r_run r) run) (w_hist w)))) by (rewrite E; right; now left).
    apply in_rev, filter_In in Hin. apply Hin.
Qed.

Lemma latest_in_hist w fid p : HV w -> latest_fid w fid = Some p -> In p (w_hist w).
Proof. intros Hw H. unfold latest_fid in H. apply last_opt_in, filter_In in H. apply (hv_cur w Hw), H. Qed.


(* ---------- every committed write is announced by a Store token that shows the write it replaced ---------- *)
(* the write of x's run that precedes x, when the history so far is [h] *)
Definition lastrun (h : list record) (x : record) : option record := last_opt (filter (by_run (r_run x)) h).
Fixpoint just (h add : list record) (t : list tok) : Prop :=
  match add with
  | [] => True
  | x :: tl => (exists a, In (TStore (lastrun h x) x a) t) /\ just (h ++ [x]) tl t
  end.
Lemma just_mono h add t t' : (forall p x a, In (TStore p x a) t -> In (TStore p x a) t') -> just h add t -> just h add t'.
Proof. revert h. induction add as [|x tl IH]; intros h Hm; cbn; [auto|]. intros [(a & Ha) Hj]. split; [exists a; apply Hm, Ha|apply IH; assumption]. Qed.
Lemma just_app h a a' t : just h (a ++ a') t <-> just h a t /\ just (h ++ a) a' t.
Proof.
  revert h. induction a as [|x tl IH]; intros h; cbn.
  - rewrite app_nil_r. tauto.
  - rewrite IH. rewrite <- app_assoc. cbn. tauto.
Qed.
Lemma just_split h add t : just h add t -> forall a1 x a2, add = a1 ++ x :: a2 -> exists a, In (TStore (lastrun (h ++ a1) x) x a) t.
Proof.
  intros Hj a1 x a2 E. subst add. apply just_app in Hj as [_ Hj]. cbn in Hj. apply Hj.
Qed.
Lemma last_opt_snoc {A} (l : list A) (x : A) : last_opt (l ++ [x]) = Some x.
Proof.
  induction l as [|a l IH]; [reflexivity|]. cbn [app]. destruct (l ++ [x]) as [|a0 l0] eqn:E; [destruct l; discriminate|].
  change (last_opt (a :: a0 :: l0)) with (last_opt (a0 :: l0)). exact IH.
Qed.
Definition grows (h h' : list record) (t : list tok) : Prop := exists add, h' = h ++ add /\ just h add t.
Lemma grows_same h h' t : h' = h -> grows h h' t.
Proof. intros ->. exists []. split; [now rewrite app_nil_r|exact I]. Qed.
Lemma grows_trans h1 h2 h3 t t' : grows h1 h2 t -> grows h2 h3 t' -> grows h1 h3 (t' ++ t).
Proof.
  intros (a & A & J) (a' & A' & J'). exists (a ++ a'). split; [rewrite A', A; now rewrite app_assoc|].
  apply just_app. split.
  - eapply just_mono; [|exact J]. intros p x y Hk. apply in_or_app. now right.
  - rewrite <- A. eapply just_mono; [|exact J']. intros p x y Hk. apply in_or_app. now left.
Qed.
Lemma grows_mono h h' t t' : (forall p x a, In (TStore p x a) t -> In (TStore p x a) t') -> grows h h' t -> grows h h' t'.
Proof. intros Hm (a & A & J). exists a. split; [exact A|eapply just_mono; eauto]. Qed.
Lemma grows_ext h h' t : grows h h' t -> exists add, h' = h ++ add.
Proof. intros (a & A & _). exists a. exact A. Qed.

Lemma lookup_is_lastrun w x : HV w -> lookup_run w (r_run x) = lastrun (w_hist w) x.
Proof.
  intros Hw. unfold lastrun. destruct (lookup_run w (r_run x)) as [p|] eqn:E.
  - rewrite lookup_run_eq in E. apply find_run_in in E as [Hin Hr]. rewrite <- Hr. symmetry. apply (hv_last w Hw p Hin).
  - destruct (filter (by_run (r_run x)) (w_hist w)) as [|y l] eqn:F; [reflexivity|].
    assert (Hy : In y (filter (by_run (r_run x)) (w_hist w))) by (rewrite F; now left).
    apply filter_In in Hy as [Hy1 Hy2]. unfold by_run in Hy2. apply N.eqb_eq in Hy2.
    destruct (hv_le w Hw y Hy1) as (cur & Hc & _). rewrite Hy2, E in Hc. discriminate.
Qed.

(* ---------- Store keeps HV when it satisfies the version clause ---------- *)
Lemma do_store_HV c w r a :
  HV w -> vc (TStore (lookup_run w (r_run r)) (stamp c w r) a) ->
  HV (do_store c w r) /\ w_hist (do_store c w r) = w_hist w ++ [stamp c w r] /\
  lookup_run w (r_run r) = lastrun (w_hist w) (stamp c w r).
Proof.
  intros Hw Hvc. set (r' := stamp c w r) in *.
  assert (Hrun : r_run r' = r_run r) by apply stamp_run.
  pose proof (hv_nodup w Hw) as Hnd.
  split; [|split; [reflexivity|rewrite <- Hrun; apply lookup_is_lastrun, Hw]].
  assert (Lsame : lookup_run (do_store c w r) (r_run r') = Some r').
  { unfold lookup_run, do_store. cbn. fold r'. apply (upsert_find_same _ _ Hnd). }
  assert (Lother : forall run, run <> r_run r' -> lookup_run (do_store c w r) run = lookup_run w run).
  { intros run Hne. unfold lookup_run, do_store. cbn. fold r'. apply (upsert_find_other _ _ _ Hnd Hne). }
  (* what the version clause gives about the older writes of this run *)
  assert (Hold : forall x, In x (w_hist w) -> r_run x = r_run r' -> r_ver x < r_ver r').
  { intros x Hx Hr. destruct (hv_le w Hw x Hx) as (cur & Hc & Hle). rewrite Hr, Hrun in Hc. rewrite Hc in Hvc. cbn in Hvc. lia. }
  constructor.
  - unfold do_store. cbn. fold r'. apply upsert_nodup, Hnd.
  - intros x Hx. unfold do_store in *. cbn in *. fold r' in Hx |- *. destruct (upsert_in _ _ _ Hnd Hx) as [->|[Hx' _]]; apply in_or_app; [right; now left|left; apply (hv_cur w Hw), Hx'].
  - intros x Hx. unfold do_store in Hx. cbn in Hx. fold r' in Hx. apply in_app_or in Hx as [Hx|[<-|[]]].
    + destruct (N.eq_dec (r_run x) (r_run r')) as [Heq|Hne].
      * exists r'. rewrite Heq. split; [exact Lsame|]. pose proof (Hold x Hx Heq). lia.
      * rewrite (Lother _ Hne). apply (hv_le w Hw x Hx).
    + exists r'. split; [exact Lsame|lia].
  - intros x y Hx Hy Hr Hv. unfold do_store in Hx, Hy. cbn in Hx, Hy. fold r' in Hx, Hy.
    apply in_app_or in Hx as [Hx|[<-|[]]]; apply in_app_or in Hy as [Hy|[<-|[]]].
    + apply (hv_uniq w Hw); assumption.
    + pose proof (Hold x Hx Hr). lia.
    + pose proof (Hold y Hy (eq_sym Hr)). lia.
    + reflexivity.
  - intros x Hx. unfold do_store in Hx. cbn in Hx. fold r' in Hx. apply in_app_or in Hx as [Hx|[<-|[]]]; [apply (hv_pos w Hw), Hx|].
    destruct (lookup_run w (r_run r)) as [p|] eqn:E; cbn in Hvc.
    + destruct (lookup_in_hist w _ p Hw E) as [Hp _]. pose proof (hv_pos w Hw p Hp). lia.
    + lia.
  - intros x Hx. unfold do_store in *. cbn in *. fold r' in Hx |- *. rewrite filter_app. cbn [filter].
    destruct (upsert_in _ _ _ Hnd Hx) as [->|[Hx' Hne]].
    + unfold by_run at 2. rewrite N.eqb_refl. apply last_opt_snoc.
    + unfold by_run at 2. apply N.eqb_neq in Hne. rewrite N.eqb_sym, Hne. rewrite app_nil_r. apply (hv_last w Hw x Hx').
Qed.

(* ---------- the step relation ---------- *)
Definition hv_step (s s' : ost) : Prop :=
  exists t, o_trace s' = t ++ o_trace s /\
    (HV (o_w s) -> Forall vc t ->
       HV (o_w s') /\ grows (w_hist (o_w s)) (w_hist (o_w s')) t /\ Forall (prov (w_hist (o_w s'))) t).

Lemma hv_refl s : hv_step s s.
Proof. exists []. split; [reflexivity|]. intros H _. split; [exact H|]. split; [apply grows_same; reflexivity|constructor]. Qed.
Lemma hv_trans s1 s2 s3 : hv_step s1 s2 -> hv_step s2 s3 -> hv_step s1 s3.
Proof.
  intros (t & E & F) (t' & E' & F'). exists (t' ++ t). split; [rewrite E', E; now rewrite app_assoc|].
  intros H1 Hv. apply Forall_app in Hv as [Hv' Hv]. destruct (F H1 Hv) as (H2 & G & P). destruct (F' H2 Hv') as (H3 & G' & P').
  split; [exact H3|]. split; [eapply grows_trans; eassumption|].
  apply Forall_app. split; [exact P'|]. destruct (grows_ext _ _ _ G') as (a' & A'). rewrite A'. eapply Forall_impl; [|exact P]. intros x. apply prov_mono.
Qed.

Definition hv {A} (m : M A) : Prop := forall s, hv_step s (snd (m s)).
Definition hv_ret {A} (a : A) : hv (ret a) := rr_ret hv_step hv_refl a.
Definition hv_fail {A} e : hv (@fail A e) := rr_fail hv_step hv_refl e.
Definition hv_bind {A B} (m : M A) (f : A -> M B) : hv m -> (forall a, hv (f a)) -> hv (bind m f) := rr_bind hv_step hv_trans m f.
Definition hv_catch {A} (m : M A) : hv m -> hv (catch m) := rr_catch hv_step m.
Definition hv_get_w : hv get_w := rr_get_w hv_step hv_refl.
Definition hv_disp_ret {A} d (a : A) : hv (disp_ret d a) := rr_disp_ret hv_step hv_refl d a.
Definition hv_ite {A} (b : ost -> bool) (m1 m2 : M A) : hv m1 -> hv m2 -> hv (fun s => if b s then m1 s else m2 s) := rr_ite hv_step b m1 m2.

(* state functions that keep the trace, the records and the history *)
Lemma hv_same s s' :
  o_trace s' = o_trace s -> w_recs (o_w s') = w_recs (o_w s) -> w_hist (o_w s') = w_hist (o_w s) -> hv_step s s'.
Proof.
  intros E1 E2 E3. exists []. split; [exact E1|]. intros H _. split; [apply (HV_frame (o_w s)); assumption|].
  split; [apply grows_same, E3|constructor].
Qed.
Lemma hv_state {A} (f : ost -> res A * ost) :
  (forall s, o_trace (snd (f s)) = o_trace s /\ w_recs (o_w (snd (f s))) = w_recs (o_w s) /\ w_hist (o_w (snd (f s))) = w_hist (o_w s)) ->
  hv (f : M A).
Proof. intros H s. destruct (H s) as (A1 & A2 & A3). apply hv_same; assumption. Qed.

Lemma hv_emit_at s t : (HV (o_w s) -> prov (w_hist (o_w s)) t) -> hv_step s (snd (emit t s)).
Proof.
  intros Ht. destruct (emit_spec2 t s) as (_ & E2 & E3 & E4). destruct (o_dead s) eqn:D.
  - apply hv_same; [exact E4|now rewrite E2|now rewrite E2].
  - exists [t]. split; [exact E4|]. intros H _. rewrite E2. split; [exact H|]. split; [apply grows_same; reflexivity|].
    constructor; [apply Ht, H|constructor].
Qed.
Lemma hv_emit t : (forall h, prov h t) -> hv (emit t).
Proof. intros Ht s. apply hv_emit_at. intros _. apply Ht. Qed.
Lemma hv_dispatch k ctx : hv (dispatch k ctx).
Proof. intros s. destruct (dispatch_spec2 k ctx s) as (d & _ & E2 & E3 & _). apply hv_same; [exact E3|now rewrite E2|now rewrite E2]. Qed.
Lemma hv_get_put (f : world -> world) :
  (forall w, w_recs (f w) = w_recs w /\ w_hist (f w) = w_hist w) -> hv (w <- get_w ;; put_w (f w)).
Proof. intros H. apply hv_state. intros s. cbn. destruct (H (o_w s)). auto. Qed.
Lemma hv_att_bump code run : hv (att_bump code run).
Proof. apply hv_state. intros s. unfold att_bump. cbn. auto. Qed.
Lemma hv_ctr_add inst k : hv (ctr_add inst k).
Proof. apply hv_state. intros s. unfold ctr_add. destruct (c_add _ _). cbn. auto. Qed.
Lemma hv_ctr_clear inst k : hv (ctr_clear inst k).
Proof. apply hv_state. intros s. unfold ctr_clear. cbn. auto. Qed.
Lemma hv_lease_live : hv lease_live.
Proof. apply hv_state. intros s. unfold lease_live. cbn. auto. Qed.

(* every adapter call *)
Lemma hv_prim {A} k ctx T E (X : disp -> world -> M A) :
  (forall d w, HV w -> vc (T d w) -> prov (w_hist w) (T d w) /\
       (disp_effect d = true -> HV (E w) /\ grows (w_hist w) (w_hist (E w)) [T d w])) ->
  (forall d w, hv (X d w)) -> hv (prim k ctx T E X).
Proof.
  intros HT HX s. destruct (prim_spec2 k ctx T E X s) as (d & s1 & W1 & Tr & D0 & D1 & D2 & R). rewrite R.
  eapply hv_trans; [|apply HX].
  destruct (o_dead s1) eqn:Ed.
  - rewrite (D2 eq_refl) in W1. cbn in W1. apply hv_same; [exact Tr|now rewrite W1|now rewrite W1].
  - exists [T d (o_w s)]. split; [exact Tr|]. intros Hw Hvc. inversion Hvc as [|x l Hx Hl]; subst.
    destruct (HT d (o_w s) Hw Hx) as [P Q]. rewrite W1. destruct (disp_effect d) eqn:Ef.
    + destruct (Q eq_refl) as [H' G]. split; [exact H'|]. split; [exact G|].
      constructor; [|constructor]. destruct (grows_ext _ _ _ G) as (add & Ha). rewrite Ha. apply prov_mono, P.
    + split; [exact Hw|]. split; [apply grows_same; reflexivity|]. constructor; [exact P|constructor].
Qed.
(* ... whose effect leaves records and history alone *)
Lemma hv_prim_frame {A} k ctx T E (X : disp -> world -> M A) :
  (forall d w, HV w -> prov (w_hist w) (T d w)) -> (forall w, w_recs (E w) = w_recs w /\ w_hist (E w) = w_hist w) ->
  (forall d w, hv (X d w)) -> hv (prim k ctx T E X).
Proof.
  intros HT HE HX. apply hv_prim; [|exact HX]. intros d w Hw _. split; [apply HT, Hw|]. intros _. destruct (HE w) as [E1 E2].
  split; [apply (HV_frame w); assumption|]. apply grows_same, E2.
Qed.

Section H.
Variable c : econfig.

Lemma hv_p_lookup run : hv (p_lookup run).
Proof.
  unfold p_lookup. apply hv_prim_frame; [|intros w; auto|intros d w; apply hv_disp_ret].
  intros d w Hw. cbn. destruct d; cbn; try exact I.
  - destruct (lookup_run w run) as [p|] eqn:E; cbn; [apply (lookup_in_hist w run p Hw E)|exact I].
  - destruct (stale_run w run) as [p|] eqn:E; cbn; [apply (stale_in_hist w run p Hw E)|exact I].
Qed.
Lemma hv_p_latest fid : hv (p_latest fid).
Proof.
  unfold p_latest. apply hv_prim_frame; [|intros w; auto|intros d w; apply hv_disp_ret].
  intros d w Hw. cbn. destruct d; cbn; try exact I;
    (destruct (latest_fid w fid) as [p|] eqn:E; cbn; [apply (latest_in_hist w fid p Hw E)|exact I]).
Qed.
Lemma hv_p_store r : hv (p_store c r).
Proof.
  unfold p_store. apply hv_prim; [|intros d w; apply hv_disp_ret].
  intros d w Hw Hvc. split.
  - cbn. destruct (lookup_run w (r_run r)) as [p|] eqn:E; [apply (lookup_in_hist w _ p Hw E)|exact I].
  - intros _. destruct (do_store_HV c w r (disp_res d) Hw Hvc) as (H1 & H2 & H3). split; [exact H1|]. exists [stamp c w r]. split; [exact H2|].
    cbn. split; [|exact I]. exists (disp_res d). left. rewrite H3. reflexivity.
Qed.
Ltac tk := intros; exact I.
Lemma hv_p_call_id k ctx args out : hv (p_call k ctx args (fun w => w) out).
Proof. unfold p_call. apply hv_prim_frame; [tk|intros w; auto|intros d w; apply hv_disp_ret]. Qed.
Lemma hv_p_list_outbox limit : hv (p_list_outbox limit).
Proof. unfold p_list_outbox. apply hv_prim_frame; [tk|intros w; auto|intros d w; apply hv_disp_ret]. Qed.
Lemma hv_p_send o : hv (p_send o).
Proof. unfold p_send. apply hv_prim_frame; [tk|intros w; auto|intros d w; apply hv_disp_ret]. Qed.
Lemma hv_p_del_outbox id : hv (p_del_outbox id).
Proof. unfold p_del_outbox. apply hv_prim_frame; [tk|intros w; auto|intros d w; apply hv_disp_ret]. Qed.
Lemma hv_p_list_valid st : hv (p_list_valid st).
Proof. unfold p_list_valid. apply hv_prim_frame; [tk|intros w; auto|intros d w; apply hv_disp_ret]. Qed.
Lemma hv_p_tcreate fid run st ex : hv (p_tcreate fid run st ex).
Proof. unfold p_tcreate. apply hv_prim_frame; [tk|intros w; auto|intros d w; apply hv_disp_ret]. Qed.
Lemma hv_p_tcomplete id : hv (p_tcomplete id).
Proof. unfold p_tcomplete. apply hv_prim_frame; [tk|intros w; auto|intros d w; apply hv_disp_ret]. Qed.
Lemma hv_p_tcancel id : hv (p_tcancel id).
Proof. unfold p_tcancel. apply hv_prim_frame; [tk|intros w; auto|intros d w; apply hv_disp_ret]. Qed.
Lemma hv_p_ack u idx e : hv (p_ack u idx e).
Proof. unfold p_ack. apply hv_prim_frame; [tk|intros w; auto|intros d w; apply hv_disp_ret]. Qed.
Lemma hv_m_release u inst : hv (m_release u inst).
Proof. unfold m_release. apply hv_get_put. intros w. auto. Qed.
Lemma hv_m_acquire u inst : hv (m_acquire u inst).
Proof. unfold m_acquire. apply hv_get_put. intros w. auto. Qed.

(* an invocation token: the persisted record it shows is the run's current record *)
Lemma hv_get_w_bind {A} (f : world -> M A) : (forall w s, o_w s = w -> hv_step s (snd (f w s))) -> hv (w <- get_w ;; f w).
Proof. intros H s. unfold bind, get_w. cbn [fst snd]. apply H. reflexivity. Qed.
Lemma hv_emit_bind_at {A} w t (k : M A) s :
  o_w s = w -> (HV w -> prov (w_hist w) t) -> hv k -> hv_step s (snd ((emit t ;;; k) s)).
Proof.
  intros Ew Ht Hk. unfold bind. pose proof (hv_emit_at s t) as H1. rewrite Ew in H1. specialize (H1 Ht).
  destruct (emit_spec2 t s) as (F1 & _). destruct (emit t s) as [[[]|e] s1]; cbn [fst snd] in *; [|discriminate].
  eapply hv_trans; [exact H1|apply Hk].
Qed.
Lemma prov_user w u view now pl : HV w -> prov (w_hist w) (TUser u view (lookup_run w (r_run view)) now pl).
Proof. intros Hw. cbn. destruct (lookup_run w (r_run view)) as [p|] eqn:E; [apply (lookup_in_hist w _ p Hw E)|exact I]. Qed.

Ltac hv_extra := fail.
Ltac hv_go :=
  repeat first
    [ hv_extra | apply hv_ret | apply hv_fail | (apply hv_emit; intros; exact I) | apply hv_get_w | apply hv_disp_ret
    | apply hv_p_lookup | apply hv_p_latest | apply hv_p_store | apply hv_p_list_outbox | apply hv_p_send
    | apply hv_p_del_outbox | apply hv_p_list_valid | apply hv_p_tcreate | apply hv_p_tcomplete | apply hv_p_tcancel | apply hv_p_ack
    | apply hv_m_release | apply hv_m_acquire | apply hv_att_bump | apply hv_ctr_add | apply hv_ctr_clear | apply hv_lease_live | apply hv_dispatch
    | apply hv_p_call_id
    | apply hv_catch
    | (apply hv_bind; [|intros])
    | assumption
    | match goal with
      | H : forall _, hv _ |- _ => apply H
      | H : forall _ _, hv _ |- _ => apply H
      | |- hv (match ?x with _ => _ end) => destruct x
      | |- hv (let (_, _) := ?x in _) => destruct x
      end ].

Lemma hv_build_run r : hv (build_run r). Proof. unfold build_run. hv_go. Qed.
Lemma hv_ctl_do ctl target reason : hv (ctl_do c ctl target reason). Proof. unfold ctl_do. hv_go. Qed.
Lemma hv_updater cur next run : hv (updater c cur next run). Proof. unfold updater. hv_go. Qed.
Ltac hv_extra ::= first [apply hv_build_run | apply hv_ctl_do | apply hv_updater].
Lemma hv_invoke u b status view : hv (invoke c u b status view).
Proof.
  unfold invoke. apply hv_bind; [apply hv_att_bump|]. intros n. apply hv_get_w_bind. intros w s Ew.
  destruct (eval_beh b n (obj_seed (r_obj view))) as [mark act]. cbv zeta.
  apply (hv_emit_bind_at w); [exact Ew|apply prov_user|]. destruct act; hv_go.
Qed.
Ltac hv_extra ::= first [apply hv_build_run | apply hv_ctl_do | apply hv_updater | apply hv_invoke].
Lemma hv_maybe_pause inst n e u ctl : hv (maybe_pause c inst n e u ctl). Proof. unfold maybe_pause. hv_go. Qed.
Ltac hv_extra ::= first [apply hv_build_run | apply hv_ctl_do | apply hv_updater | apply hv_invoke | apply hv_maybe_pause].
Lemma hv_step_handler inst u st fn n e : (forall v, hv (fn v)) -> hv (step_handler c inst u st fn n e).
Proof. intros Hfn. unfold step_handler. hv_go. Qed.
Lemma hv_inserter_fn st tos : forall j view, hv (inserter_fn st tos j view).
Proof.
  induction tos as [|t tl IH]; intros j view; cbn [inserter_fn]; [hv_go|].
  destruct (negb (to_status t =? st)); [apply IH|]. apply hv_get_w_bind. intros w s Ew.
  destruct (to_dur t =? -2).
  - apply (hv_emit_bind_at w); [exact Ew|apply prov_user|]. hv_go.
  - cbv zeta. apply (hv_emit_bind_at w); [exact Ew|apply prov_user|]. hv_go.
Qed.
Lemma hv_process_timeouts inst u st n t tos : forall j, hv (process_timeouts c inst u st n tos j t).
Proof. induction tos as [|tc tl IH]; intros j; cbn [process_timeouts]; hv_go. Qed.
Lemma hv_poll_timers inst u st n l : hv (poll_timers c inst u st n l).
Proof. induction l as [|t tl IH]; cbn [poll_timers]; hv_go. apply hv_process_timeouts. Qed.
Lemma hv_hook_handler st k e : hv (hook_handler st k e).
Proof.
  unfold hook_handler. apply hv_bind; [apply hv_p_lookup|]. intros [r|]; [|hv_go]. destruct (r_obj r); [|hv_go].
  apply hv_bind; [apply hv_att_bump|]. intros n. apply hv_get_w_bind. intros w s Ew.
  apply (hv_emit_bind_at w); [exact Ew|apply prov_user|]. hv_go.
Qed.
Lemma hv_delete_handler e : hv (delete_handler c e).
Proof.
  unfold delete_handler. apply hv_bind; [apply hv_p_lookup|]. intros [r|]; [|hv_go].
  apply hv_bind; [|intros; apply hv_p_store]. destruct (ec_del c =? 0); [hv_go|]. destruct (r_obj r); [|hv_go].
  apply hv_bind; [apply hv_att_bump|]. intros n. apply hv_get_w_bind. intros w s Ew.
  cbv zeta. apply (hv_emit_bind_at w); [exact Ew|apply prov_user|]. hv_go.
Qed.
Lemma hv_retry_handler e : hv (retry_handler c e). Proof. unfold retry_handler. hv_go. Qed.
Lemma hv_unit_handler inst u e : hv (unit_handler c inst u e).
Proof.
  unfold unit_handler. destruct u; try apply hv_fail.
  - destruct (find_step c s); [|apply hv_fail]. apply hv_step_handler. intros v. apply hv_invoke.
  - apply hv_step_handler. intros v. apply hv_inserter_fn.
  - apply hv_hook_handler.
  - apply hv_delete_handler.
  - apply hv_retry_handler.
  - unfold conn_handler. hv_go.
Qed.
Lemma hv_relay_entries l : hv (relay_entries l).
Proof. induction l as [|o tl IH]; cbn [relay_entries]; hv_go. Qed.
Lemma hv_exit_err inst u close e : hv (exit_err c inst u close e).
Proof.
  unfold exit_err. apply hv_bind; [destruct close; hv_go|]. intros _. destruct (e =? ECancel); [hv_go|].
  apply hv_bind; [apply hv_get_w|]. intros w. apply hv_ite; [|apply hv_ite]; hv_go.
Qed.
Lemma hv_guarded inst u close (m : M pstate) : hv m -> hv (guarded c inst u close m).
Proof.
  intros Hm s. unfold guarded. specialize (Hm s). destruct (m s) as [[ps|e] s']; cbn [snd] in *; [exact Hm|].
  eapply hv_trans; [exact Hm|apply hv_exit_err].
Qed.
Lemma hv_api_trigger fid start seed : hv (api_trigger c fid start seed).
Proof.
  unfold api_trigger. destruct (if start =? 0 then _ else _); [|apply hv_fail].
  destruct (negb _); [apply hv_fail|]. apply hv_bind; [apply hv_p_latest|]. intros lastr.
  destruct (match lastr with Some _ => _ | None => _ end); [apply hv_fail|].
  apply hv_get_w_bind. intros w s Ew. unfold bind at 1, put_w. cbn [fst snd].
  eapply hv_trans; [|apply hv_p_store]. subst w. apply hv_same; reflexivity.
Qed.
Ltac hv_extra ::= first [apply hv_build_run | apply hv_ctl_do | apply hv_updater | apply hv_invoke | apply hv_maybe_pause | apply hv_api_trigger].
Lemma hv_api_callbacks fid status cbs : forall j, hv (api_callbacks c fid status cbs j).
Proof. induction cbs as [|cb tl IH]; intros j; cbn [api_callbacks]; hv_go. Qed.
Lemma hv_api_ctl run o : hv (api_ctl c run o). Proof. unfold api_ctl. hv_go. Qed.
Lemma hv_sched_after_wait inst sc : hv (sched_after_wait c inst sc).
Proof. unfold sched_after_wait. hv_go. Qed.
Lemma hv_sched_body inst sc : hv (sched_body c inst sc).
Proof. unfold sched_body. hv_go; apply hv_sched_after_wait. Qed.
Lemma hv_poll_once inst u st : hv (poll_once c inst u st).
Proof. unfold poll_once. hv_go. apply hv_poll_timers. Qed.
Lemma hv_after_lag inst u idx e : hv (after_lag c inst u idx e).
Proof.
  unfold after_lag. apply hv_bind; [|intros; apply hv_ret].
  destruct (unit_filter u e); [apply hv_p_ack|]. apply hv_bind; [apply hv_unit_handler|]. intros _. apply hv_p_ack.
Qed.
Lemma hv_consume_iter inst u : hv (consume_iter c inst u).
Proof.
  unfold consume_iter. apply hv_bind; [apply hv_get_w|]. intros w. apply hv_bind; [apply hv_lease_live|]. intros lv.
  destruct (next_event _ _ _ _) as [[idx e]|].
  - apply hv_bind; [apply hv_dispatch|]. intros d.
    assert (Hok : hv (emit (TRecv e) ;;;
                      (let lag := unit_lag c u in
                       if (lag >? 0) && (e_created e + lag >? w_now w)
                       then emit (TCall KTW [e_created e + lag] RBlocked []) ;;; ret (PLag idx e (e_created e + lag))
                       else after_lag c inst u idx e))).
    { apply hv_bind; [apply hv_emit; intros; exact I|]. intros _. cbv zeta. destruct (_ && _); [hv_go|apply hv_after_lag]. }
    destruct d; try exact Hok; hv_go.
  - destruct lv; hv_go.
Qed.

Ltac hv_extra ::= first [apply hv_build_run | apply hv_ctl_do | apply hv_updater | apply hv_invoke | apply hv_maybe_pause | apply hv_api_trigger
                        | apply hv_sched_after_wait | apply hv_relay_entries | apply hv_poll_once | apply hv_sched_body
                        | apply hv_exit_err | (apply hv_guarded) | apply hv_poll_timers | apply hv_consume_iter | apply hv_after_lag ].

(* one scheduling step of a process, from EVERY state *)
Theorem hv_proc_op inst u ps : hv (proc_op c inst u ps).
Proof.
  unfold proc_op. destruct ps as [| |idx e deadline|deadline|deadline].
  - apply hv_bind; [apply hv_get_w|]. intros w. destruct (role_holder w u); [hv_go|].
    apply hv_bind; [apply hv_dispatch|]. intros d.
    assert (Hgo : hv (emit (TCall KAW [] ROk []) ;;; m_acquire u inst ;;;
               match u with
               | EOutbox => guarded c inst u false (l <- p_list_outbox (ec_limit c) ;; relay_entries l ;;; m_release u inst ;;; ret PIdle)
               | EPoller s0 => guarded c inst u false (poll_once c inst u s0)
               | ESched fid => match find_sched c fid with
                               | Some sc => guarded c inst u false (sched_body c inst sc)
                               | None => m_release u inst ;;; ret PIdle
                               end
               | _ => guarded c inst u false (p_call KNR true [] (fun w0 => w0) (fun _ => []) ;;; ret PRun)
               end)).
    { apply hv_bind; [apply hv_emit; intros; exact I|]. intros _. apply hv_bind; [apply hv_m_acquire|]. intros _.
      destruct u; try (apply hv_guarded; hv_go). destruct (find_sched c fid); [apply hv_guarded, hv_sched_body|hv_go]. }
    destruct d; try exact Hgo; hv_go.
  - destruct u; hv_go.
  - apply hv_bind; [apply hv_get_w|]. intros w. apply hv_bind; [apply hv_lease_live|]. intros lv.
    destruct (negb lv); [hv_go|]. destruct (deadline >? w_now w); hv_go.
  - apply hv_bind; [apply hv_get_w|]. intros w. apply hv_bind; [apply hv_lease_live|]. intros lv.
    destruct (negb lv); [hv_go|]. destruct (deadline >? w_now w); hv_go.
  - apply hv_bind; [apply hv_get_w|]. intros w. apply hv_bind; [apply hv_lease_live|]. intros lv.
    destruct (negb lv); [hv_go|]. destruct (deadline >? w_now w); [hv_go|].
    apply hv_bind; [apply hv_emit; intros; exact I|]. intros _. destruct u; try apply hv_ret.
    destruct (find_sched c fid); [apply hv_guarded, hv_sched_after_wait|apply hv_ret].
Qed.

(* ---------- whole operations and histories ---------- *)
Definition op_post (w w' : world) (t : list tok) : Prop :=
  HV w -> Forall vc t -> HV w' /\ grows (w_hist w) (w_hist w') t /\ Forall (prov (w_hist w')) t.

Lemma op_post_frame w w' : w_recs w' = w_recs w -> w_hist w' = w_hist w -> op_post w w' [].
Proof. intros E1 E2 H _. split; [apply (HV_frame w); assumption|]. split; [apply grows_same, E2|constructor]. Qed.

Lemma run_api_post w p (m : M unit) : hv m -> op_post w (fst (run_api w p m)) (snd (run_api w p m)).
Proof.
  intros Hm Hw Hvc. unfold run_api in *. destruct (Hm (mkOst w p [] [] true false)) as (t & Et & F). cbn [o_trace o_w] in Et, F. rewrite app_nil_r in Et.
  destruct (m (mkOst w p [] [] true false)) as [[[]|e] s]; cbn [fst snd] in *.
  all: rewrite Et in *; cbn [rev] in Hvc; apply Forall_app in Hvc as [Hvc _]; apply Forall_rev in Hvc; rewrite rev_involutive in Hvc.
  all: destruct (F Hw Hvc) as (H1 & H2 & H3); split; [exact H1|]; split; [eapply grows_mono; [|exact H2]; intros p0 x0 a0 Hk; cbn [rev]; apply in_or_app; left; apply in_rev; now rewrite rev_involutive|];
    cbn [rev]; apply Forall_app; split; [apply Forall_rev, H3|repeat constructor].
Qed.

Lemma Forall_map_tapi (P : tok -> Prop) (f : Z -> Z) t :
  (forall z, P (TApi z)) -> (Forall P (map (fun x => match x with TApi z => TApi (f z) | _ => x end) t) <-> Forall P t).
Proof.
  intros HP. induction t as [|x l IH]; cbn; [split; constructor|]. split; intros H; inversion H; subst; constructor; try (apply IH; assumption).
  - destruct x; try assumption. apply HP.
  - destruct x; try assumption. apply HP.
Qed.

Lemma crash_inst_frame w inst : w_recs (crash_inst w inst) = w_recs w /\ w_hist (crash_inst w inst) = w_hist w.
Proof. unfold crash_inst. cbn. auto. Qed.

Theorem run_op_post w o : op_post w (fst (run_op c w o)) (snd (run_op c w o)).
Proof.
  destruct o as [fid start seed p|fid status p|run op ui p|d|inst u p|inst|inst fid valid|inst u|u pos|idx|cid id fid]; cbn [run_op].
  - apply run_api_post, hv_api_trigger.
  - apply run_api_post, hv_api_callbacks.
  - pose proof (run_api_post w p (api_ctl c run op) (hv_api_ctl run op)) as H.
    destruct (run_api w p (api_ctl c run op)) as [w' t]. cbn [fst snd] in *. destruct ui; [|exact H].
    intros Hw Hvc. apply Forall_map_tapi in Hvc; [|intros; exact I]. destruct (H Hw Hvc) as (H1 & H2 & H3).
    split; [exact H1|]. split; [|apply Forall_map_tapi; [intros; exact I|exact H3]].
    eapply grows_mono; [|exact H2]. intros p0 x0 a0 Hk. apply in_map_iff. eexists. split; [|exact Hk]. reflexivity.
  - apply op_post_frame; reflexivity.
  - set (ps := get_pstate w (inst, u)).
    set (w1 := set_lost w (filter (fun x => negb (procid_eqb (inst, u) x)) (w_lost w))).
    set (s0 := mkOst w1 p [] [] _ false).
    destruct (hv_proc_op inst u ps s0) as (t & Et & F). cbn [o_trace o_w] in Et, F. rewrite app_nil_r in Et.
    destruct (proc_op c inst u ps s0) as [[ps'|e] s]; cbn [fst snd] in *.
    + intros Hw Hvc. rewrite Et in *. apply Forall_rev in Hvc. rewrite rev_involutive in Hvc.
      destruct (F (HV_frame w w1 eq_refl eq_refl Hw) Hvc) as (H1 & H2 & H3).
      assert (E : w_recs (if o_dead s then crash_inst (put_pstate (o_w s) (inst, u) ps') inst else put_pstate (o_w s) (inst, u) ps') = w_recs (o_w s) /\
                  w_hist (if o_dead s then crash_inst (put_pstate (o_w s) (inst, u) ps') inst else put_pstate (o_w s) (inst, u) ps') = w_hist (o_w s))
        by (destruct (o_dead s); cbn; auto).
      destruct E as [E1 E2]. split; [apply (HV_frame (o_w s)); assumption|]. rewrite E2. split; [|apply Forall_rev, H3].
      eapply grows_mono; [|exact H2]. intros p0 x0 a0 Hk. now apply in_rev in Hk.
    + intros Hw Hvc. rewrite Et in *. apply Forall_rev in Hvc. rewrite rev_involutive in Hvc.
      destruct (F (HV_frame w w1 eq_refl eq_refl Hw) Hvc) as (H1 & H2 & H3).
      assert (E : w_recs (if o_dead s then crash_inst (o_w s) inst else o_w s) = w_recs (o_w s) /\
                  w_hist (if o_dead s then crash_inst (o_w s) inst else o_w s) = w_hist (o_w s))
        by (destruct (o_dead s); cbn; auto).
      destruct E as [E1 E2]. split; [apply (HV_frame (o_w s)); assumption|]. rewrite E2. split; [|apply Forall_rev, H3].
      eapply grows_mono; [|exact H2]. intros p0 x0 a0 Hk. now apply in_rev in Hk.
  - apply op_post_frame; apply crash_inst_frame.
  - intros Hw _. split; [exact Hw|]. split; [apply grows_same; reflexivity|repeat constructor].
  - destruct (get_pstate w (inst, u)); apply op_post_frame; reflexivity.
  - apply op_post_frame; reflexivity.
  - destruct (nth_error (w_log w) idx); apply op_post_frame; reflexivity.
  - apply op_post_frame; reflexivity.
Qed.

Lemma run_ops_from_post : forall ops n w, op_post w (fst (run_ops_from c n w ops)) (snd (run_ops_from c n w ops)).
Proof.
  induction ops as [|o tl IH]; intros n w; cbn [run_ops_from].
  - cbn. apply op_post_frame; reflexivity.
  - pose proof (run_op_post w o) as H1. destruct (run_op c w o) as [w1 t1]. specialize (IH (S n) w1).
    destruct (run_ops_from c (S n) w1 tl) as [w2 t2]. cbn [fst snd] in *.
    intros Hw Hvc. inversion Hvc as [|x l _ Hl]; subst. apply Forall_app in Hl as [Hv1 Hv2].
    destruct (H1 Hw Hv1) as (A1 & G1 & A3). destruct (IH A1 Hv2) as (B1 & G2 & B3).
    split; [exact B1|]. split.
    { eapply grows_mono; [|eapply grows_trans; [exact G1|exact G2]]. intros p0 x0 a0 Hk. right. apply in_app_or in Hk. apply in_or_app. tauto. }
    destruct (grows_ext _ _ _ G2) as (a2 & B2).
    constructor; [exact I|]. apply Forall_app. split; [|exact B3]. rewrite B2. eapply Forall_impl; [|exact A3]. intros x. apply prov_mono.
Qed.

Lemma tok_ok_vc t : tok_ok (ec_graph c) t = true -> vc t.
Proof.
  destruct t as [| | |[p|] r a| | | | | | | |]; cbn; try (intros; exact I); intros H.
  - apply store_ok_some in H. split; [apply (sf_ver _ _ _ H)|apply (sf_run _ _ _ H)].
  - unfold store_ok in H. apply andb_prop in H as [_ H]. apply andb_prop in H as [H _]. apply andb_prop in H as [H _]. now apply Z.eqb_eq.
Qed.

(* ---------- every history ---------- *)
Theorem hist_versions ops : Forall op_ok ops ->
  HV (fst (run_ops c ops)) /\ Forall (prov (w_hist (fst (run_ops c ops)))) (snd (run_ops c ops)).
Proof.
  intros H. pose proof (all_tokens_ok c ops H) as Hok.
  assert (Hvc : Forall vc (snd (run_ops c ops))) by (eapply Forall_impl; [|exact Hok]; intros t; apply tok_ok_vc).
  destruct (run_ops_from_post ops 0%nat w0 HV_w0 Hvc) as (A & _ & B). split; assumption.
Qed.

(* the version identifies the write: in the history of committed writes two writes of one run with one version are one write,
   no write is more recent than the run's current record, and the current record is itself a committed write *)
Theorem version_identifies_write ops : Forall op_ok ops ->
  forall x y, In x (w_hist (fst (run_ops c ops))) -> In y (w_hist (fst (run_ops c ops))) -> r_run x = r_run y -> r_ver x = r_ver y -> x = y.
Proof. intros H. apply (hv_uniq _ (proj1 (hist_versions ops H))). Qed.

(* every committed write was made by a Store call that the trace shows, together with the write of that run it replaced
   ([lastrun h1 x]: the last write of x's run before x; None: x is the first write of its run) *)
Theorem writes_are_announced ops : Forall op_ok ops -> forall h1 x h2, w_hist (fst (run_ops c ops)) = h1 ++ x :: h2 ->
  exists a, In (TStore (lastrun h1 x) x a) (snd (run_ops c ops)).
Proof.
  intros H h1 x h2 E. pose proof (all_tokens_ok c ops H) as Hok.
  assert (Hvc : Forall vc (snd (run_ops c ops))) by (eapply Forall_impl; [|exact Hok]; intros t; apply tok_ok_vc).
  destruct (run_ops_from_post ops 0%nat w0 HV_w0 Hvc) as (_ & (add & A & J) & _). cbn in A. unfold run_ops in E. rewrite A in E.
  apply (just_split [] add _ J h1 x h2 E).
Qed.

(* the persisted record a token shows *)
Definition shows (t : tok) (x : record) : Prop :=
  match t with
  | TStore (Some p) _ _ => p = x
  | TUser _ _ (Some p) _ _ => p = x
  | TLookup _ _ _ (Some p) => p = x
  | _ => False
  end.
Lemma shows_prov h t x : prov h t -> shows t x -> In x h.
Proof. destruct t as [| | k key r [q|]|[q|] r a|u v [q|] n pl| | | | | | |]; cbn; intros H E; try contradiction; subst; exact H. Qed.

Theorem shown_records_are_writes ops : Forall op_ok ops -> forall t x,
  In t (snd (run_ops c ops)) -> shows t x -> In x (w_hist (fst (run_ops c ops))).
Proof.
  intros H t x Hin Hs. destruct (hist_versions ops H) as [_ P]. rewrite Forall_forall in P. eapply shows_prov; [apply P, Hin|exact Hs].
Qed.

Theorem same_version_same_record ops : Forall op_ok ops -> forall t1 t2 x y,
  In t1 (snd (run_ops c ops)) -> In t2 (snd (run_ops c ops)) -> shows t1 x -> shows t2 y ->
  r_run x = r_run y -> r_ver x = r_ver y -> x = y.
Proof.
  intros H t1 t2 x y H1 H2 S1 S2. apply (version_identifies_write ops H);
    [apply (shown_records_are_writes ops H t1 x H1 S1)|apply (shown_records_are_writes ops H t2 y H2 S2)].
Qed.

End H.
