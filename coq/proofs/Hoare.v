(* Hoare.v — a small program logic for the operation monad M of model/EngineBase.v.
   [triple P m Q]: from every state satisfying P, running m yields a result and a state satisfying Q — whatever the fault
   plan, counters, lease and crash flags in the state are (they are part of the state, hence universally quantified). *)
From WF Require Import model.Base model.RunState model.Routing model.Graph model.Counter model.Shard model.EngineBase model.Engine.

Definition triple {A} (P : ost -> Prop) (m : M A) (Q : res A -> ost -> Prop) : Prop :=
  forall s, P s -> Q (fst (m s)) (snd (m s)).

Lemma t_ret {A} (P : ost -> Prop) (a : A) (Q : res A -> ost -> Prop) :
  (forall s, P s -> Q (Ok a) s) -> triple P (ret a) Q.
Proof. intros H s Hs. apply H, Hs. Qed.

Lemma t_fail {A} (P : ost -> Prop) (e : err) (Q : res A -> ost -> Prop) :
  (forall s, P s -> Q (Err e) s) -> triple P (fail e) Q.
Proof. intros H s Hs. apply H, Hs. Qed.

Lemma t_bind {A B} (P : ost -> Prop) (m : M A) (f : A -> M B) (R : A -> ost -> Prop) (Q : res B -> ost -> Prop) :
  triple P m (fun r s => match r with Ok a => R a s | Err e => Q (Err e) s end) ->
  (forall a, triple (R a) (f a) Q) ->
  triple P (bind m f) Q.
Proof.
  intros Hm Hf s Hs. unfold bind. specialize (Hm s Hs).
  destruct (m s) as [[a|e] s']; cbn [fst snd] in *.
  - apply Hf, Hm.
  - exact Hm.
Qed.

Lemma t_conseq {A} (P P' : ost -> Prop) (m : M A) (Q Q' : res A -> ost -> Prop) :
  (forall s, P s -> P' s) -> triple P' m Q' -> (forall r s, Q' r s -> Q r s) -> triple P m Q.
Proof. intros HP Hm HQ s Hs. apply HQ, Hm, HP, Hs. Qed.

Lemma t_pre {A} (P P' : ost -> Prop) (m : M A) (Q : res A -> ost -> Prop) :
  (forall s, P s -> P' s) -> triple P' m Q -> triple P m Q.
Proof. intros HP Hm s Hs. apply Hm, HP, Hs. Qed.

Lemma t_post {A} (P : ost -> Prop) (m : M A) (Q Q' : res A -> ost -> Prop) :
  triple P m Q' -> (forall r s, Q' r s -> Q r s) -> triple P m Q.
Proof. intros Hm HQ s Hs. apply HQ, Hm, Hs. Qed.

(* a pure fact can be moved out of the precondition *)
Lemma t_pure {A} (F : Prop) (P : ost -> Prop) (m : M A) (Q : res A -> ost -> Prop) :
  (F -> triple P m Q) -> triple (fun s => F /\ P s) m Q.
Proof. intros H s [HF Hs]. apply H; assumption. Qed.

Lemma t_ex {A X} (P : X -> ost -> Prop) (m : M A) (Q : res A -> ost -> Prop) :
  (forall x, triple (P x) m Q) -> triple (fun s => exists x, P x s) m Q.
Proof. intros H s [x Hs]. eapply H; eauto. Qed.

(* the states a computation may reach differ from the start state only in ... : frames are expressed on the two
   components the properties talk about, the world and the trace *)

(* ---------- basic primitives ---------- *)
Lemma emit_spec (t : tok) (s : ost) :
  fst (emit t s) = Ok tt /\ o_w (snd (emit t s)) = o_w s /\ o_plan (snd (emit t s)) = o_plan s /\
  (o_trace (snd (emit t s)) = t :: o_trace s \/ o_trace (snd (emit t s)) = o_trace s).
Proof. unfold emit. destruct (o_dead s); cbn; auto. Qed.

Lemma t_emit (t : tok) (P : ost -> Prop) (Q : res unit -> ost -> Prop) :
  (forall s s', P s -> o_w s' = o_w s -> o_plan s' = o_plan s ->
                (o_trace s' = t :: o_trace s \/ o_trace s' = o_trace s) -> Q (Ok tt) s') ->
  triple P (emit t) Q.
Proof.
  intros H s Hs. destruct (emit_spec t s) as (E1 & E2 & E3 & E4). rewrite E1. eapply H; eauto.
Qed.

Lemma t_get_w (P : ost -> Prop) (Q : res world -> ost -> Prop) :
  (forall s, P s -> Q (Ok (o_w s)) s) -> triple P get_w Q.
Proof. intros H s Hs. apply H, Hs. Qed.

Lemma t_put_w (w : world) (P : ost -> Prop) (Q : res unit -> ost -> Prop) :
  (forall s s', P s -> o_w s' = w -> o_plan s' = o_plan s -> o_trace s' = o_trace s -> Q (Ok tt) s') ->
  triple P (put_w w) Q.
Proof. intros H s Hs. unfold put_w. cbn. eapply H; eauto. Qed.

(* dispatch only touches counters and flags *)
Lemma dispatch_spec (k : ckind) (ctx : bool) (s : ost) :
  exists d, fst (dispatch k ctx s) = Ok d /\ o_w (snd (dispatch k ctx s)) = o_w s /\
            o_plan (snd (dispatch k ctx s)) = o_plan s /\ o_trace (snd (dispatch k ctx s)) = o_trace s /\
            (d = DoStale -> plan_at (o_plan s) k (count_get (o_counts s) k) = FStale).
Proof.
  unfold dispatch, next_fault. cbn.
  destruct (o_dead s); [eexists; cbn; repeat split; congruence|].
  destruct (ctx && negb (o_lease s)); [eexists; cbn; repeat split; congruence|].
  destruct (plan_at (o_plan s) k (count_get (o_counts s) k)) eqn:E; cbn;
    eexists; cbn; repeat split; congruence.
Qed.

Lemma t_dispatch (k : ckind) (ctx : bool) (P : ost -> Prop) (Q : res disp -> ost -> Prop) :
  (forall s s' d, P s -> o_w s' = o_w s -> o_plan s' = o_plan s -> o_trace s' = o_trace s ->
                  (d = DoStale -> plan_at (o_plan s) k (count_get (o_counts s) k) = FStale) -> Q (Ok d) s') ->
  triple P (dispatch k ctx) Q.
Proof.
  intros H s Hs. destruct (dispatch_spec k ctx s) as (d & E1 & E2 & E3 & E4 & E5). rewrite E1. eapply H; eauto.
Qed.

Lemma t_disp_ret {A} (d : disp) (a : A) (P : ost -> Prop) (Q : res A -> ost -> Prop) :
  (forall s, P s -> Q (Ok a) s) -> (forall s e, P s -> Q (Err e) s) -> triple P (disp_ret d a) Q.
Proof. intros H1 H2 s Hs. destruct d; cbn; auto. Qed.

Lemma t_catch {A} (P : ost -> Prop) (m : M A) (Q : res (res A) -> ost -> Prop) :
  triple P m (fun r s => Q (Ok r) s) -> triple P (catch m) Q.
Proof. intros H s Hs. unfold catch. specialize (H s Hs). destruct (m s) as [[a|e] s']; exact H. Qed.

(* state-only functions of shape  fun s => (Ok x, s with a new world)  *)
Lemma t_att_bump (code : Z) (run : N) (P : ost -> Prop) (Q : res nat -> ost -> Prop) :
  (forall s s' n, P s -> o_w s' = set_att (o_w s) ((code, run, S n) :: w_att (o_w s)) -> o_plan s' = o_plan s ->
                  o_trace s' = o_trace s -> Q (Ok n) s') ->
  triple P (att_bump code run) Q.
Proof. intros H s Hs. unfold att_bump. cbn. eapply H; eauto. Qed.

Lemma t_ctr_add (inst : Z) (k : ckey) (P : ost -> Prop) (Q : res nat -> ost -> Prop) :
  (forall s s' n c', P s -> o_w s' = set_ctrs (o_w s) c' -> o_plan s' = o_plan s -> o_trace s' = o_trace s -> Q (Ok n) s') ->
  triple P (ctr_add inst k) Q.
Proof.
  intros H s Hs. unfold ctr_add. destruct (c_add (ctr_of (w_ctrs (o_w s)) inst) k) as [c' n] eqn:E. cbn.
  eapply (H s _ n); [exact Hs|cbn; reflexivity|reflexivity|reflexivity].
Qed.

Lemma t_ctr_clear (inst : Z) (k : ckey) (P : ost -> Prop) (Q : res unit -> ost -> Prop) :
  (forall s s' c', P s -> o_w s' = set_ctrs (o_w s) c' -> o_plan s' = o_plan s -> o_trace s' = o_trace s -> Q (Ok tt) s') ->
  triple P (ctr_clear inst k) Q.
Proof. intros H s Hs. unfold ctr_clear. cbn. eapply (H s); [exact Hs|cbn; reflexivity|reflexivity|reflexivity]. Qed.
