(* Determined.v — every write of every history is the failure-free write.
   Part 1: which computations record no Store ([ns]).  Part 2: [adv m]: running [m] keeps "every Store of the operation so far is
   explained" ([adv_ok], proofs/EffectFacts.v) — for the handlers whose Stores come from a record a Lookup answered with (API
   control calls, paused-records retry, delete consumer, the timeout inserter's pause) and for Trigger, next to the step / timeout /
   callback handlers done in EffectFacts.  Part 3: every operation, every history.  Part 4: with "the version identifies the write"
   (proofs/HistVersions.v) and the token theorem, what each explanation says about the PERSISTED record the write replaced:
   [every_write_is_failure_free]. *)
From WF Require Import model.Base model.RunState model.Routing model.Graph model.Counter model.Shard model.EngineBase model.Engine
  model.Monitors proofs.Hoare proofs.EngineInv proofs.EngineTokens proofs.TokenFacts proofs.EngineProps proofs.Frame proofs.Emits
  proofs.WaitFrame proofs.EffectFacts proofs.HistVersions proofs.StepStatus.
Open Scope list_scope.

(* ---------- Part 1: no Store recorded ---------- *)
Definition ns {A} (m : M A) : Prop := em not_store m.
Definition ns_ret {A} (a : A) : ns (ret a) := rr_ret (em_step not_store) (em_refl not_store) a.
Definition ns_fail {A} e : ns (@fail A e) := rr_fail (em_step not_store) (em_refl not_store) e.
Definition ns_bind {A B} (m : M A) (f : A -> M B) : ns m -> (forall a, ns (f a)) -> ns (bind m f) :=
  rr_bind (em_step not_store) (em_trans not_store) m f.
Definition ns_catch {A} (m : M A) : ns m -> ns (catch m) := rr_catch (em_step not_store) m.
Definition ns_get_w : ns get_w := rr_get_w (em_step not_store) (em_refl not_store).
Definition ns_disp_ret {A} d (a : A) : ns (disp_ret d a) := rr_disp_ret (em_step not_store) (em_refl not_store) d a.
Definition ns_ite {A} (b : ost -> bool) (m1 m2 : M A) : ns m1 -> ns m2 -> ns (fun s => if b s then m1 s else m2 s) :=
  rr_ite (em_step not_store) b m1 m2.
Lemma ns_emit t : not_store t -> ns (emit t). Proof. apply em_emit. Qed.
Lemma ns_dispatch k ctx : ns (dispatch k ctx).
Proof. apply em_state. intros s. destruct (dispatch_spec2 k ctx s) as (d & _ & _ & E & _). exact E. Qed.
Lemma ns_prim_ret {A} k ctx T E (a : disp -> world -> A) : (forall d w, not_store (T d w)) -> ns (prim k ctx T E (fun d w => disp_ret d (a d w))).
Proof. apply em_prim_ret. Qed.
Lemma ns_get_put (f : world -> world) : ns (w <- get_w ;; put_w (f w)). Proof. apply em_state. reflexivity. Qed.
Lemma ns_lease_live : ns lease_live. Proof. apply em_state. reflexivity. Qed.
Ltac tk := intros; exact I.
Lemma ns_p_lookup run : ns (p_lookup run). Proof. unfold p_lookup. apply ns_prim_ret. tk. Qed.
Lemma ns_p_latest fid : ns (p_latest fid). Proof. unfold p_latest. apply ns_prim_ret. tk. Qed.
Lemma ns_p_call k ctx args eff out : ns (p_call k ctx args eff out). Proof. unfold p_call. apply ns_prim_ret. tk. Qed.
Lemma ns_p_list_outbox limit : ns (p_list_outbox limit). Proof. unfold p_list_outbox. apply ns_prim_ret. tk. Qed.
Lemma ns_p_send o : ns (p_send o). Proof. unfold p_send. apply ns_prim_ret. tk. Qed.
Lemma ns_p_del_outbox id : ns (p_del_outbox id). Proof. unfold p_del_outbox. apply ns_prim_ret. tk. Qed.
Lemma ns_p_list_valid st : ns (p_list_valid st). Proof. unfold p_list_valid. apply ns_prim_ret. tk. Qed.
Lemma ns_p_tcreate fid run st ex : ns (p_tcreate fid run st ex). Proof. unfold p_tcreate. apply ns_prim_ret. tk. Qed.
Lemma ns_p_tcomplete id : ns (p_tcomplete id). Proof. unfold p_tcomplete. apply ns_prim_ret. tk. Qed.
Lemma ns_p_tcancel id : ns (p_tcancel id). Proof. unfold p_tcancel. apply ns_prim_ret. tk. Qed.
Lemma ns_p_ack u idx e : ns (p_ack u idx e). Proof. unfold p_ack. apply ns_prim_ret. tk. Qed.
Lemma ns_m_release u inst : ns (m_release u inst). Proof. unfold m_release. apply ns_get_put. Qed.
Lemma ns_m_acquire u inst : ns (m_acquire u inst). Proof. unfold m_acquire. apply ns_get_put. Qed.

Ltac ns_extra := fail.
Ltac ns_go :=
  repeat first
    [ ns_extra | apply ns_ret | apply ns_fail | (apply ns_emit; exact I) | apply ns_get_w | apply ns_disp_ret
    | apply ns_p_lookup | apply ns_p_latest | apply ns_p_list_outbox | apply ns_p_send
    | apply ns_p_del_outbox | apply ns_p_list_valid | apply ns_p_tcreate | apply ns_p_tcomplete | apply ns_p_tcancel | apply ns_p_ack
    | apply ns_m_release | apply ns_m_acquire | apply em_att_bump | apply em_ctr_add | apply em_ctr_clear | apply ns_lease_live | apply ns_dispatch
    | apply ns_p_call
    | apply ns_catch
    | (apply ns_bind; [|intros])
    | assumption
    | match goal with
      | H : forall _, ns _ |- _ => apply H
      | H : forall _ _, ns _ |- _ => apply H
      | |- ns (match ?x with _ => _ end) => destruct x
      | |- ns (let (_, _) := ?x in _) => destruct x
      end ].

Section D.
Variable c : econfig.

Lemma ns_build_run r : ns (build_run r). Proof. unfold build_run. ns_go. Qed.
Lemma ns_inserter_fn st tos : forall j view, ns (inserter_fn st tos j view).
Proof. induction tos as [|t tl IH]; intros j view; cbn [inserter_fn]; ns_go. Qed.
Lemma ns_hook_handler st k e : ns (hook_handler st k e). Proof. unfold hook_handler. ns_go. Qed.
Lemma ns_conn_handler cid k e : ns (conn_handler cid k e). Proof. unfold conn_handler. ns_go. Qed.
Lemma ns_relay_entries l : ns (relay_entries l).
Proof. induction l as [|o tl IH]; cbn [relay_entries]; ns_go. Qed.
Lemma ns_exit_err inst u close e : ns (exit_err c inst u close e).
Proof.
  unfold exit_err. apply ns_bind; [destruct close; ns_go|]. intros _. destruct (e =? ECancel); [ns_go|].
  apply ns_bind; [apply ns_get_w|]. intros w. apply ns_ite; [|apply ns_ite]; ns_go.
Qed.

(* ---------- Part 2: explained Stores ---------- *)
Definition adv {A} (m : M A) : Prop := forall s, adv_ok c (o_trace s) -> adv_ok c (o_trace (snd (m s))).
Lemma adv_of_ns {A} (m : M A) : ns m -> adv m.
Proof. intros H s Hs. eapply adv_ok_em; [apply H|exact Hs]. Qed.
Lemma adv_ret {A} (a : A) : adv (ret a). Proof. intros s H. exact H. Qed.
Lemma adv_fail {A} e : adv (@fail A e). Proof. intros s H. exact H. Qed.
Lemma adv_bind {A B} (m : M A) (f : A -> M B) : adv m -> (forall a, adv (f a)) -> adv (bind m f).
Proof. intros Hm Hf s Hs. unfold bind. specialize (Hm s Hs). destruct (m s) as [[a|e] s1]; cbn [snd] in *; [apply Hf, Hm|exact Hm]. Qed.
Lemma adv_catch {A} (m : M A) : adv m -> adv (catch m).
Proof. intros Hm s Hs. unfold catch. specialize (Hm s Hs). destruct (m s) as [[a|e] s1]; exact Hm. Qed.
Lemma adv_ite {A} (b : ost -> bool) (m1 m2 : M A) : adv m1 -> adv m2 -> adv (fun s => if b s then m1 s else m2 s).
Proof. intros H1 H2 s Hs. destruct (b s); [apply H1|apply H2]; exact Hs. Qed.

(* a Lookup that answered with a record has recorded it (the instance was alive: a dead instance gets no answer) *)
Definition looked_up (x : record) (tr : list tok) : Prop := exists k key res, In (TLookup k key res (Some x)) tr.
Lemma looked_up_ext x t tr : looked_up x tr -> looked_up x (t ++ tr).
Proof. intros (k & key & res & H). exists k, key, res. apply in_or_app. now right. Qed.

Lemma p_lookup_post run s r s1 : p_lookup run s = (Ok (Some r), s1) -> looked_up r (o_trace s1) /\ exists t, o_trace s1 = t :: o_trace s /\ not_store t.
Proof.
  unfold p_lookup. intros H.
  match type of H with prim ?k ?ctx ?T ?E ?X s = _ => destruct (prim_spec2 k ctx T E X s) as (d & s0 & _ & Tr & _ & _ & D2 & R) end.
  rewrite R in H. clear R.
  assert (Hd : (d = DoOk \/ d = DoStale) /\ s1 = s0 /\ (match d with DoStale => stale_run (o_w s) run | _ => lookup_run (o_w s) run end) = Some r).
  { destruct d; cbn in H; inversion H; subst; auto. }
  destruct Hd as (Hd & -> & Hv).
  assert (Ha : o_dead s0 = false) by (destruct (o_dead s0); [specialize (D2 eq_refl); destruct Hd; congruence|reflexivity]).
  rewrite Ha in Tr. rewrite Tr. split.
  - exists KLK, (Z.of_N run). destruct Hd as [-> | ->]; cbn in *; rewrite Hv; eexists; left; reflexivity.
  - eexists. split; [reflexivity|exact I].
Qed.

(* a plain write from a record looked up earlier in the operation *)
Lemma p_store_src r' s x : adv_ok c (o_trace s) -> looked_up x (o_trace s) -> plain_of c x r' -> adv_ok c (o_trace (snd (p_store c r' s))).
Proof.
  intros Hs Hl Hp. unfold p_store.
  match goal with |- context [prim ?k ?ctx ?T ?E ?X s] => destruct (prim_ret_spec' k ctx T E s) as (d & s1 & R & Tr & D1) end.
  rewrite R. cbn [snd]. rewrite Tr. destruct (o_dead s1); [exact Hs|]. apply av_src; [|exact Hs]. right.
  destruct Hl as (k & key & res & Hin). exists (TLookup k key res (Some x)). split; [exact Hin|]. cbn.
  destruct Hp as (P1 & P2 & P3 & P4). destruct (stamp_fields3 c (o_w s) r') as (S1 & S2 & S3).
  unfold plain_of. rewrite S1, S2, S3, (stamp_ver c), (stamp_state c). auto.
Qed.
Lemma p_store_new r' s : r_ver r' = 1 -> adv_ok c (o_trace s) -> adv_ok c (o_trace (snd (p_store c r' s))).
Proof.
  intros Hv Hs. unfold p_store.
  match goal with |- context [prim ?k ?ctx ?T ?E ?X s] => destruct (prim_ret_spec' k ctx T E s) as (d & s1 & R & Tr & D1) end.
  rewrite R. cbn [snd]. rewrite Tr. destruct (o_dead s1); [exact Hs|]. apply av_src; [|exact Hs]. left. rewrite (stamp_ver c). exact Hv.
Qed.

Definition same4 (x ctl : record) : Prop := r_run ctl = r_run x /\ r_status ctl = r_status x /\ r_obj ctl = r_obj x /\ r_ver ctl = r_ver x.
Lemma same4_refl x : same4 x x. Proof. repeat split. Qed.
Lemma same4_promote x : same4 x (promote x). Proof. unfold same4, promote. destruct (r_state x); cbn; auto. Qed.

Lemma ctl_do_src ctl target reason s x :
  target <> RSDataDeleted ->
  adv_ok c (o_trace s) -> looked_up x (o_trace s) -> same4 x ctl -> adv_ok c (o_trace (snd (ctl_do c ctl target reason s))).
Proof.
  intros Htg Hs Hl (E1 & E2 & E3 & E4). unfold ctl_do. destruct (ctl_update ctl target reason) as [r'|] eqn:Eu; [|exact Hs].
  assert (F : plain_of c x r').
  { unfold ctl_update in Eu. destruct (rs_table _ _); [|discriminate]. inversion Eu. unfold plain_of. cbn. repeat split; auto; try lia. }
  unfold bind, catch. pose proof (p_store_src r' s x Hs Hl F) as H1.
  destruct (p_store c r' s) as [[[]|e] s1]; exact H1.
Qed.

Lemma maybe_pause_src inst n e u ctl s x :
  adv_ok c (o_trace s) -> looked_up x (o_trace s) -> same4 x ctl -> adv_ok c (o_trace (snd (maybe_pause c inst n e u ctl s))).
Proof.
  intros Hs Hl Hc. unfold maybe_pause. destruct (n =? 0); [exact Hs|].
  unfold bind at 1. unfold ctr_add at 1. destruct (c_add (ctr_of (w_ctrs (o_w s)) inst) (Z.to_N e, eunit_code u, r_run ctl)) as [c' cnt]. cbn [fst snd].
  destruct (Z.of_nat cnt <? n); [exact Hs|].
  unfold bind at 1.
  match goal with |- context [ctl_do c ctl RSPaused 2 ?sx] => set (s1 := sx) end.
  pose proof (ctl_do_src ctl RSPaused 2 s1 x ltac:(discriminate) Hs Hl Hc) as H1.
  destruct (ctl_do c ctl RSPaused 2 s1) as [[y|er] s2]; cbn [snd] in *; [|exact H1].
  destruct (fst y); exact H1.
Qed.

(* the timeout inserter: its function records no Store and hands back the record it was given *)
Lemma inserter_fn_out st tos : forall j view s o oc ctl s', inserter_fn st tos j view s = (Ok (o, oc, ctl), s') ->
  ctl = view /\ match oc with inl z => z = 0 | inr _ => True end.
Proof.
  induction tos as [|t tl IH]; intros j view s o oc ctl s'; cbn [inserter_fn].
  - unfold ret. intros H. inversion H. auto.
  - destruct (negb (to_status t =? st)); [apply IH|]. unfold bind at 1, get_w. cbn [fst snd].
    destruct (to_dur t =? -2).
    + unfold bind, emit, ret. destruct (o_dead s); intros H; inversion H; auto.
    + cbv zeta. unfold bind at 1. destruct (emit _ s) as [[[]|e] s1]; [|discriminate].
      destruct (to_dur t <? 0); [apply IH|]. unfold bind at 1. destruct (catch _ s1) as [[[[]|e]|e] s2]; try discriminate.
      * apply IH.
      * unfold ret. intros H. inversion H. auto.
Qed.

Theorem step_handler_ins_adv inst u st n e : adv (step_handler c inst u st (inserter_fn st (ec_tos c) 0) n e).
Proof.
  intros s Hs. unfold step_handler. unfold bind at 1.
  pose proof (ns_p_lookup (e_run e) s) as F1.
  destruct (p_lookup (e_run e) s) as [[[r|]|er] s1] eqn:El; cbn [snd] in *; pose proof (adv_ok_em c _ _ F1 Hs) as H1; try exact H1.
  destruct (p_lookup_post _ _ _ _ El) as [Hl _].
  destruct (r_ver r >? e_ver e); [exact H1|]. destruct (r_ver r <? e_ver e); [exact H1|]. destruct (rs_stopped (r_state r)); [exact H1|].
  unfold bind at 1. unfold build_run. destruct (r_obj r) as [seed tr|] eqn:Eo; [|exact H1]. cbn [ret fst snd].
  unfold bind at 1.
  pose proof (ns_inserter_fn st (ec_tos c) 0%nat (promote r) s1) as F2.
  destruct (inserter_fn st (ec_tos c) 0 (promote r) s1) as [[[[obj' oc] ctl]|er] s2] eqn:Ei; cbn [snd] in *;
    pose proof (adv_ok_em c _ _ F2 H1) as H2; [|exact H2].
  apply inserter_fn_out in Ei. destruct Ei as [-> Hz].
  assert (Hl2 : looked_up r (o_trace s2)) by (destruct F2 as (t & Et & _); rewrite Et; apply looked_up_ext, Hl).
  destruct oc as [z|oe].
  - subst z. cbn. exact H2.
  - unfold bind at 1. pose proof (maybe_pause_src inst n oe u (promote r) s2 r H2 Hl2 (same4_promote r)) as H3.
    destruct (maybe_pause c inst n oe u (promote r) s2) as [[[]|er] s3]; exact H3.
Qed.

Definition repl_of (r : record) : M obj :=
  if ec_del c =? 0 then ret ODeleted
  else match r_obj r with
       | ODeleted => fail EGen
       | OVal seed tr =>
         n <- att_bump (ufun_code UFDelete) (r_run r) ;;
         w <- get_w ;;
         let failing := Z.of_nat n <? ec_del c - 2 in
         emit (TUser UFDelete r (lookup_run w (r_run r)) (w_now w) (if failing then UErr 60 else UOk)) ;;;
         if failing then fail EGen else ret (OVal seed [])
       end.
Lemma repl_of_out r s o s2 : repl_of r s = (Ok o, s2) -> o = scrub_obj c (r_obj r).
Proof.
  unfold repl_of, scrub_obj. destruct (ec_del c =? 0); [unfold ret; intros H; now inversion H|].
  destruct (r_obj r) as [seed tr|]; [|unfold fail; discriminate].
  unfold bind at 1, att_bump. cbn [fst snd]. unfold bind at 1, get_w. cbn [fst snd]. cbv zeta. unfold bind at 1.
  destruct (emit _ _) as [[[]|e] s1]; [|discriminate]. destruct (_ <? _); [unfold fail; discriminate|]. unfold ret. intros H. now inversion H.
Qed.
Lemma ns_repl_of r : ns (repl_of r).
Proof.
  unfold repl_of. destruct (ec_del c =? 0); [ns_go|]. destruct (r_obj r); [|ns_go].
  apply ns_bind; [apply em_att_bump|]. intros n. apply ns_bind; [apply ns_get_w|]. intros w. cbv zeta. ns_go.
Qed.

Theorem delete_handler_adv e : adv (delete_handler c e).
Proof.
  intros s Hs. unfold delete_handler. unfold bind at 1.
  pose proof (ns_p_lookup (e_run e) s) as F1.
  destruct (p_lookup (e_run e) s) as [[[r|]|er] s1] eqn:El; cbn [snd] in *; pose proof (adv_ok_em c _ _ F1 Hs) as H1; try exact H1.
  destruct (p_lookup_post _ _ _ _ El) as [Hl _].
  change (adv_ok c (o_trace (snd ((repl <- repl_of r ;; p_store c (bump (set_state (set_obj r repl) RSDataDeleted))) s1)))).
  unfold bind at 1. pose proof (ns_repl_of r s1) as F2'.
  destruct (repl_of r s1) as [[o|er] s2] eqn:Er; cbn [snd] in *; pose proof (adv_ok_em c _ _ F2' H1) as H2; [|exact H2].
  apply repl_of_out in Er. subst o.
  apply (p_store_src _ s2 r H2).
  - destruct F2' as (t & Et & _). rewrite Et. apply looked_up_ext, Hl.
  - unfold plain_of. cbn. repeat split; auto.
Qed.

Theorem retry_handler_adv e : adv (retry_handler c e).
Proof.
  intros s Hs. unfold retry_handler. unfold bind at 1.
  pose proof (ns_p_lookup (e_run e) s) as F1.
  destruct (p_lookup (e_run e) s) as [[[r|]|er] s1] eqn:El; cbn [snd] in *; pose proof (adv_ok_em c _ _ F1 Hs) as H1; try exact H1.
  destruct (p_lookup_post _ _ _ _ El) as [Hl _].
  destruct (negb (rs_eqb (r_state r) RSPaused)); [exact H1|]. unfold bind at 1, get_w. cbn [fst snd].
  destruct (r_updated r >? w_now (o_w s1) - ec_retry c); [exact H1|]. unfold bind at 1.
  pose proof (ctl_do_src r RSRunning 0 s1 r ltac:(discriminate) H1 Hl (same4_refl r)) as H2.
  destruct (ctl_do c r RSRunning 0 s1) as [[y|er] s2]; cbn [snd] in *; [|exact H2]. destruct (fst y); exact H2.
Qed.

Theorem api_ctl_adv run o : adv (api_ctl c run o).
Proof.
  intros s Hs. unfold api_ctl. unfold bind at 1.
  pose proof (ns_p_lookup run s) as F1.
  destruct (p_lookup run s) as [[[r|]|er] s1] eqn:El; cbn [snd] in *; pose proof (adv_ok_em c _ _ F1 Hs) as H1; try exact H1.
  destruct (p_lookup_post _ _ _ _ El) as [Hl _]. unfold bind at 1.
  pose proof (ctl_do_src r (ctl_target o) 4 s1 r ltac:(destruct o; discriminate) H1 Hl (same4_refl r)) as H2.
  destruct (ctl_do c r (ctl_target o) 4 s1) as [[y|er] s2]; cbn [snd] in *; [|exact H2]. destruct (fst y); exact H2.
Qed.

Theorem api_trigger_adv fid start seed : adv (api_trigger c fid start seed).
Proof.
  intros s Hs. unfold api_trigger. destruct (if start =? 0 then _ else _); [|exact Hs].
  destruct (negb _); [exact Hs|]. unfold bind at 1.
  pose proof (ns_p_latest fid s) as F1.
  destruct (p_latest fid s) as [[lastr|er] s1]; cbn [snd] in *; pose proof (adv_ok_em c _ _ F1 Hs) as H1; [|exact H1].
  destruct (match lastr with Some _ => _ | None => _ end); [exact H1|].
  unfold bind at 1, get_w. cbn [fst snd]. unfold bind at 1, put_w. cbn [fst snd].
  apply p_store_new; [reflexivity|exact H1].
Qed.

(* ---------- Part 3: every operation ---------- *)
Ltac ns_extra ::= first [apply ns_build_run | apply ns_inserter_fn | apply ns_hook_handler | apply ns_conn_handler | apply ns_relay_entries | apply ns_exit_err].
Ltac adv_extra := fail.
Ltac adv_go :=
  repeat first
    [ adv_extra | apply adv_ret | apply adv_fail | (apply adv_of_ns; solve [ns_go]) | apply adv_catch
    | (apply adv_bind; [|intros])
    | assumption
    | match goal with
      | |- adv (match ?x with _ => _ end) => destruct x
      | |- adv (let (_, _) := ?x in _) => destruct x
      end ].

Lemma unit_handler_adv inst u e : adv (unit_handler c inst u e).
Proof.
  unfold unit_handler. destruct u; try apply adv_fail.
  - destruct (find_step c s) as [sc|] eqn:E; [|apply adv_fail]. intros s0 Hs. apply (step_handler_adv c inst _ s sc _ e s0 E Hs).
  - apply step_handler_ins_adv.
  - apply adv_of_ns, ns_hook_handler.
  - apply delete_handler_adv.
  - apply retry_handler_adv.
  - apply adv_of_ns, ns_conn_handler.
Qed.
Lemma guarded_adv inst u close (m : M pstate) : adv m -> adv (guarded c inst u close m).
Proof.
  intros Hm s Hs. unfold guarded. specialize (Hm s Hs). destruct (m s) as [[ps|e] s']; cbn [snd] in *; [exact Hm|].
  apply (adv_of_ns _ (ns_exit_err inst u close e)), Hm.
Qed.
Lemma after_lag_adv inst u idx e : adv (after_lag c inst u idx e).
Proof.
  unfold after_lag. apply adv_bind; [|intros; apply adv_ret].
  destruct (unit_filter u e); [apply adv_of_ns, ns_p_ack|]. apply adv_bind; [apply unit_handler_adv|]. intros _. apply adv_of_ns, ns_p_ack.
Qed.
Lemma consume_iter_adv inst u : adv (consume_iter c inst u).
Proof.
  unfold consume_iter. apply adv_bind; [apply adv_of_ns, ns_get_w|]. intros w. apply adv_bind; [apply adv_of_ns, ns_lease_live|]. intros lv.
  destruct (next_event _ _ _ _) as [[idx e]|].
  - apply adv_bind; [apply adv_of_ns, ns_dispatch|]. intros d.
    assert (Hok : adv (emit (TRecv e) ;;;
                      (let lag := unit_lag c u in
                       if (lag >? 0) && (e_created e + lag >? w_now w)
                       then emit (TCall KTW [e_created e + lag] RBlocked []) ;;; ret (PLag idx e (e_created e + lag))
                       else after_lag c inst u idx e))).
    { apply adv_bind; [apply adv_of_ns, ns_emit; exact I|]. intros _. cbv zeta. destruct (_ && _); [adv_go|apply after_lag_adv]. }
    destruct d; try exact Hok; adv_go.
  - destruct lv; adv_go.
Qed.
Lemma poll_once_adv inst u st : adv (poll_once c inst u st).
Proof.
  unfold poll_once. apply adv_bind; [apply adv_of_ns, ns_p_list_valid|]. intros l. apply adv_bind; [|intros; apply adv_ret].
  intros s Hs. apply poll_timers_adv, Hs.
Qed.
Lemma sched_after_wait_adv inst sc : adv (sched_after_wait c inst sc).
Proof.
  unfold sched_after_wait. apply adv_bind; [apply adv_of_ns; destruct (sd_filter sc =? 0); ns_go|]. intros ok.
  apply adv_bind; [|intros; adv_go]. destruct ok; [|apply adv_ret].
  apply adv_bind; [apply adv_catch, api_trigger_adv|]. intros [|e]; [apply adv_ret|]. destruct (e =? 3); [apply adv_ret|apply adv_fail].
Qed.
Lemma sched_body_adv inst sc : adv (sched_body c inst sc).
Proof.
  unfold sched_body. apply adv_bind; [apply adv_of_ns, ns_p_latest|]. intros lat. apply adv_bind; [apply adv_of_ns, ns_get_w|]. intros w.
  match goal with |- adv (if ?b then _ else _) => destruct b end; [adv_go|].
  apply adv_bind; [apply adv_of_ns, ns_emit; exact I|]. intros _. apply sched_after_wait_adv.
Qed.

Theorem proc_op_adv inst u ps : adv (proc_op c inst u ps).
Proof.
  unfold proc_op. destruct ps as [| |idx e deadline|deadline|deadline].
  - apply adv_bind; [apply adv_of_ns, ns_get_w|]. intros w. destruct (role_holder w u); [adv_go|].
    apply adv_bind; [apply adv_of_ns, ns_dispatch|]. intros d.
    assert (Hgo : adv (emit (TCall KAW [] ROk []) ;;; m_acquire u inst ;;;
               match u with
               | EOutbox => guarded c inst u false (l <- p_list_outbox (ec_limit c) ;; relay_entries l ;;; m_release u inst ;;; ret PIdle)
               | EPoller s0 => guarded c inst u false (poll_once c inst u s0)
               | ESched fid => match find_sched c fid with
                               | Some sc => guarded c inst u false (sched_body c inst sc)
                               | None => m_release u inst ;;; ret PIdle
                               end
               | _ => guarded c inst u false (p_call KNR true [] (fun w0 => w0) (fun _ => []) ;;; ret PRun)
               end)).
    { apply adv_bind; [apply adv_of_ns, ns_emit; exact I|]. intros _. apply adv_bind; [apply adv_of_ns, ns_m_acquire|]. intros _.
      destruct u; try (apply guarded_adv; solve [adv_go]).
      - apply guarded_adv, poll_once_adv.
      - destruct (find_sched c fid); [apply guarded_adv, sched_body_adv|adv_go]. }
    destruct d; try exact Hgo; adv_go.
  - destruct u; try apply adv_ret; try (apply guarded_adv, consume_iter_adv). apply guarded_adv, poll_once_adv.
  - apply adv_bind; [apply adv_of_ns, ns_get_w|]. intros w. apply adv_bind; [apply adv_of_ns, ns_lease_live|]. intros lv.
    destruct (negb lv); [apply adv_bind; [apply adv_of_ns, ns_emit; exact I|]; intros _; apply guarded_adv, adv_fail|].
    destruct (deadline >? w_now w); [adv_go|]. apply adv_bind; [apply adv_of_ns, ns_emit; exact I|]. intros _. apply guarded_adv, after_lag_adv.
  - apply adv_bind; [apply adv_of_ns, ns_get_w|]. intros w. apply adv_bind; [apply adv_of_ns, ns_lease_live|]. intros lv.
    destruct (negb lv); [adv_go|]. destruct (deadline >? w_now w); adv_go.
  - apply adv_bind; [apply adv_of_ns, ns_get_w|]. intros w. apply adv_bind; [apply adv_of_ns, ns_lease_live|]. intros lv.
    destruct (negb lv); [apply adv_bind; [apply adv_of_ns, ns_emit; exact I|]; intros _; apply guarded_adv, adv_fail|].
    destruct (deadline >? w_now w); [adv_go|]. apply adv_bind; [apply adv_of_ns, ns_emit; exact I|]. intros _.
    destruct u; try apply adv_ret. destruct (find_sched c fid); [apply guarded_adv, sched_after_wait_adv|apply adv_ret].
Qed.

(* what an explained Store has in its operation's trace *)
Definition expl_in (tr : list tok) (r : record) : Prop :=
  r_ver r = 1 \/ (exists k, In k tr /\ src_of c k r) \/
  (exists u view pers now pl, In (TUser u view pers now pl) tr /\ is_step_fn u = true /\
                              (expl_ctl view r \/ exists z, pl = URet z /\ expl_adv c u view z r)).
Definition src_tok (k : tok) : Prop := match k with TLookup _ _ _ _ | TUser _ _ _ _ _ => True | _ => False end.
Lemma expl_in_mono tr tr' r : (forall k, src_tok k -> In k tr -> In k tr') -> expl_in tr r -> expl_in tr' r.
Proof.
  intros H [A|[(k & Hk & Hs)|(u & view & pers & now & pl & Hk & Hu & He)]]; [left; exact A|right; left|right; right].
  - exists k. split; [|exact Hs]. apply H; [|exact Hk]. destruct k; try destruct Hs. exact I.
  - exists u, view, pers, now, pl. split; [apply H; [exact I|exact Hk]|auto].
Qed.
Lemma adv_ok_expl tr : adv_ok c tr -> forall p r a, In (TStore p r a) tr -> expl_in tr r.
Proof.
  induction 1 as [|t tr Hn Ht IH|p0 r0 a0 tr Hs Ht IH|p0 r0 a0 u view pers now pl tr Hu He Ht IH|p0 r0 a0 k key res lk u view pers now z tr He Ht IH];
    intros p r a Hin.
  - destruct Hin.
  - destruct Hin as [->|Hin]; [destruct Hn|]. eapply expl_in_mono; [|apply (IH _ _ _ Hin)]. intros k _ Hk. now right.
  - destruct Hin as [E|Hin].
    + inversion E; subst. destruct Hs as [A|(k & Hk & Hsrc)]; [left; exact A|right; left; exists k; split; [now right|exact Hsrc]].
    + eapply expl_in_mono; [|apply (IH _ _ _ Hin)]. intros k _ Hk. now right.
  - destruct Hin as [E|Hin].
    + inversion E; subst. right. right. exists u, view, pers, now, pl. split; [right; now left|auto].
    + eapply expl_in_mono; [|apply (IH _ _ _ Hin)]. intros k _ Hk. now right.
  - destruct Hin as [E|Hin].
    + inversion E; subst. right. right. exists u, view, pers, now, (URet z). split; [right; right; now left|].
      split; [|right; exists z; auto]. destruct He as (_ & _ & _ & _ & b & st & mark & Hc & _). eapply configured_step_fn, Hc.
    + eapply expl_in_mono; [|apply (IH _ _ _ Hin)]. intros k0 _ Hk. now right.
Qed.

Lemma run_api_expl w p (m : M unit) : adv m -> forall p0 r a, In (TStore p0 r a) (snd (run_api w p m)) -> expl_in (snd (run_api w p m)) r.
Proof.
  intros Hm p0 r a. unfold run_api. specialize (Hm (mkOst w p [] [] true false) (av_nil c)).
  destruct (m (mkOst w p [] [] true false)) as [[[]|e] s]; cbn [fst snd] in *; intros Hin; apply in_rev in Hin;
    (destruct Hin as [Hin|Hin]; [discriminate|]);
    (eapply expl_in_mono; [|apply (adv_ok_expl _ Hm _ _ _ Hin)]); intros k _ Hk; apply in_rev; rewrite rev_involutive; now right.
Qed.

Theorem run_op_expl w o : forall p r a, In (TStore p r a) (snd (run_op c w o)) -> expl_in (snd (run_op c w o)) r.
Proof.
  destruct o as [fid start seed p|fid status p|run op ui p|d|inst u p|inst|inst fid valid|inst u|u pos|idx|cid id fid]; cbn [run_op].
  - apply run_api_expl, api_trigger_adv.
  - apply run_api_expl. intros s Hs. apply api_callbacks_adv; [intros x Hx; exact Hx|exact Hs].
  - pose proof (run_api_expl w p (api_ctl c run op) (api_ctl_adv run op)) as H.
    destruct (run_api w p (api_ctl c run op)) as [w' t]. cbn [fst snd] in *. destruct ui; [|exact H].
    intros p0 r a Hin. apply in_map_iff in Hin as (y & Ey & Hy). destruct y; try discriminate Ey. inversion Ey; subst.
    eapply expl_in_mono; [|apply (H _ _ _ Hy)]. intros k Hk Hin. apply in_map_iff. exists k. split; [destruct k; try destruct Hk; reflexivity|exact Hin].
  - intros p r a [].
  - set (ps := get_pstate w (inst, u)).
    set (w1 := set_lost w (filter (fun x => negb (procid_eqb (inst, u) x)) (w_lost w))).
    set (s0 := mkOst w1 p [] [] _ false).
    pose proof (proc_op_adv inst u ps s0 (av_nil c)) as H.
    destruct (proc_op c inst u ps s0) as [[ps'|e] s]; cbn [fst snd] in *; intros p0 r a Hin; apply in_rev in Hin;
      (eapply expl_in_mono; [|apply (adv_ok_expl _ H _ _ _ Hin)]); intros k _ Hk; apply in_rev; rewrite rev_involutive; exact Hk.
  - intros p r a [].
  - intros p r a [E|[]]. discriminate.
  - destruct (get_pstate w (inst, u)); intros p r a [].
  - intros p r a [].
  - destruct (nth_error (w_log w) idx); intros p r a [].
  - intros p r a [].
Qed.

Lemma run_ops_from_expl : forall ops n w p r a,
  In (TStore p r a) (snd (run_ops_from c n w ops)) -> expl_in (snd (run_ops_from c n w ops)) r.
Proof.
  induction ops as [|o tl IH]; intros n w p r a; cbn [run_ops_from]; [intros []|].
  pose proof (run_op_expl w o) as H1. destruct (run_op c w o) as [w1 t1]. specialize (IH (S n) w1).
  destruct (run_ops_from c (S n) w1 tl) as [w2 t2]. cbn [fst snd] in *.
  intros [E|Hin]; [discriminate|]. apply in_app_or in Hin as [Hin|Hin].
  - eapply expl_in_mono; [|apply (H1 _ _ _ Hin)]. intros k _ Hk. right. apply in_or_app. now left.
  - eapply expl_in_mono; [|apply (IH _ _ _ Hin)]. intros k _ Hk. right. apply in_or_app. now right.
Qed.

(* ---------- Part 4: every write of every history ---------- *)
(* a run-state change only *)
Definition kept (p r : record) : Prop := r_status r = r_status p /\ r_obj r = r_obj p /\ r_state r <> RSDataDeleted.
(* the data-deletion rewrite: the stored object replaced by the fixed marker or by the custom delete function's result *)
Definition scrubbed (p r : record) : Prop := r_state r = RSDataDeleted /\ r_status r = r_status p /\ r_obj r = scrub_obj c (r_obj p).
(* the failure-free outcome, on the PERSISTED record [p], of a function the builder configured for p's status: its step function,
   one of its callback functions or one of its timeout functions *)
Definition advanced (p r : record) : Prop :=
  (r_state r = RSRunning \/ r_state r = RSCompleted) /\
  exists u b mark, configured c u b (r_status p) /\
    final_beh b (obj_seed (r_obj p)) = (mark, ARet (r_status r)) /\
    r_obj r = (if mark then mark_obj (r_obj p) (r_status p) else r_obj p).

Theorem every_write_is_failure_free ops : hist_ok ops ->
  forall p r a, In (TStore (Some p) r a) (trace_of c ops) -> kept p r \/ scrubbed p r \/ advanced p r.
Proof.
  intros H p r a Hin. unfold trace_of in *.
  destruct (hist_versions c ops H) as [Hv Hp]. rewrite Forall_forall in Hp.
  pose proof (store_some_facts c ops H p r a Hin) as F.
  pose proof (Hp _ Hin) as Pp. cbn in Pp.
  destruct (run_ops_from_expl ops 0%nat w0 (Some p) r a Hin) as [A|[(k & Hk & Hs)|(u & view & pers & now & pl & Hk & Hu & He)]].
  - pose proof (hv_pos _ Hv p Pp). pose proof (sf_ver _ _ _ F). lia.
  - destruct k as [| | kk key res [x|]| | | | | | | | |]; cbn in Hs; try contradiction. destruct Hs as (S1 & S2 & S3 & S4).
    pose proof (Hp _ Hk) as Px. cbn in Px.
    assert (x = p).
    { apply (hv_uniq _ Hv); [exact Px|exact Pp| |]; [rewrite <- S1; apply (sf_run _ _ _ F)|pose proof (sf_ver _ _ _ F); lia]. }
    subst x. destruct S4 as [[S4 S5]|[S4 S5]]; [left; repeat split; assumption|right; left; repeat split; assumption].
  - pose proof (tok_in c ops H _ Hk) as Tu. cbn in Tu.
    destruct (user_ok_step u view pers Hu Tu) as (q & -> & _ & Q1 & Q2 & Q3 & Q4).
    pose proof (Hp _ Hk) as Pq. cbn in Pq.
    assert (Hq : r_run r = r_run view /\ r_ver r = r_ver view + 1 -> q = p).
    { intros [E1 E2]. apply (hv_uniq _ Hv); [exact Pq|exact Pp| |]; [rewrite <- Q4, <- E1; apply (sf_run _ _ _ F)|pose proof (sf_ver _ _ _ F); lia]. }
    destruct He as [(E1 & E2 & E3 & E4 & E5)|(z & -> & E1 & E2 & E3 & E4 & b & st & mark & Hc & Hf & Ho)].
    + rewrite (Hq (conj E1 E4)) in *. left. repeat split; try congruence.
    + rewrite (Hq (conj E1 E3)) in *. right. right.
      assert (Hst : st = r_status p).
      { destruct u as [s0|s0 j|s0 j|s0 j| | | |]; cbn in Hu; try discriminate Hu.
        - destruct Hc as [-> _]. symmetry. apply (step_invoked_at_its_status c ops H s0 view p now (URet z) Hk).
        - destruct Hc as [-> _]. unfold user_ok in Tu. cbn [is_step_fn] in Tu. apply andb_prop in Tu as [_ Tu]. symmetry. now apply Z.eqb_eq.
        - destruct Hc as [-> _]. unfold user_ok in Tu. cbn [is_step_fn] in Tu. apply andb_prop in Tu as [_ Tu]. apply andb_prop in Tu as [Tu _].
          symmetry. now apply Z.eqb_eq. }
      subst st. split; [exact E4|]. exists u, b, mark. split; [exact Hc|]. rewrite <- Q1, E2. split; [exact Hf|exact Ho].
Qed.

(* C15: whatever becomes DataDeleted holds the scrub of the object that was stored *)
Theorem scrub_object ops : hist_ok ops -> forall p r a, In (TStore (Some p) r a) (trace_of c ops) ->
  r_state r = RSDataDeleted -> r_obj r = scrub_obj c (r_obj p).
Proof.
  intros H p r a Hin Hs. destruct (every_write_is_failure_free ops H p r a Hin) as [(_ & _ & K)|[(_ & _ & S)|([A|A] & _)]]; try congruence.
Qed.
Lemma obj_eqb_refl o : obj_eqb o o = true.
Proof. destruct o as [sd tr|]; cbn; [|reflexivity]. rewrite Z.eqb_refl. destruct (list_eq_dec Z.eq_dec tr tr); [reflexivity|contradiction]. Qed.
Theorem mon_C15_obj_holds ops : hist_ok ops -> forall t, In t (trace_of c ops) -> mon_C15_obj c t = true.
Proof.
  intros H t Hin. destruct t as [| | |[p|] r a| | | | | | | |]; try reflexivity. cbn.
  destruct (rs_eqb (r_state r) RSDataDeleted) eqn:E; [|reflexivity]. apply rs_eqb_eq in E.
  rewrite (scrub_object ops H p r a Hin E). cbn. apply obj_eqb_refl.
Qed.
(* C16: the object changes only in the scrub or with the outcome of a configured function of the persisted status *)
Theorem object_changes_only_by_function ops : hist_ok ops -> forall p r a, In (TStore (Some p) r a) (trace_of c ops) ->
  r_obj r <> r_obj p -> scrubbed p r \/ advanced p r.
Proof.
  intros H p r a Hin Hne. destruct (every_write_is_failure_free ops H p r a Hin) as [(_ & K & _)|[S|A]]; [contradiction|auto|auto].
Qed.

(* the same, read off the history of committed writes: every committed write is the first write of a new run — version 1,
   Initiated, at a declared status — or stands in one of the three relations to the write of its run that it replaced *)
Theorem history_is_failure_free_path ops : hist_ok ops ->
  forall h1 x h2, w_hist (fst (run_ops c ops)) = h1 ++ x :: h2 ->
  match lastrun h1 x with
  | None => r_ver x = 1 /\ r_state x = RSInitiated /\ is_valid (ec_graph c) (r_status x) = true
  | Some p => kept p x \/ scrubbed p x \/ advanced p x
  end.
Proof.
  intros H h1 x h2 E. destruct (writes_are_announced c ops H h1 x h2 E) as (a & Hin).
  destruct (lastrun h1 x) as [p|].
  - apply (every_write_is_failure_free ops H p x a Hin).
  - apply (store_new_facts c ops H x a Hin).
Qed.

(* and the record a run currently has is the last committed write of that run *)
Theorem current_is_last_write ops : hist_ok ops ->
  forall x, In x (w_recs (fst (run_ops c ops))) -> last_opt (filter (by_run (r_run x)) (w_hist (fst (run_ops c ops)))) = Some x.
Proof. intros H. apply (hv_last _ (proj1 (hist_versions c ops H))). Qed.

(* ---------- the version counts the writes ---------- *)
Lemma last_opt_filter_split {A} (f : A -> bool) (l : list A) (p : A) :
  last_opt (filter f l) = Some p -> exists l1 l2, l = l1 ++ p :: l2 /\ filter f l2 = [] /\ f p = true.
Proof.
  induction l as [|a l IH] using rev_ind; cbn; [discriminate|].
  rewrite filter_app. cbn. destruct (f a) eqn:E.
  - rewrite last_opt_snoc. intros H. inversion H; subst. exists l, []. auto.
  - rewrite app_nil_r. intros H. destruct (IH H) as (l1 & l2 & -> & F & Hp). exists l1, (l2 ++ [a]). rewrite <- app_assoc. cbn.
    split; [reflexivity|]. split; [|exact Hp]. rewrite filter_app, F. cbn. now rewrite E.
Qed.

Lemma last_opt_none {A} (l : list A) : last_opt l = None -> l = [].
Proof.
  induction l as [|a l IH]; [reflexivity|]. destruct l as [|b l']; [discriminate|]. intros H.
  change (last_opt (b :: l') = None) in H. apply IH in H. discriminate.
Qed.

(* in the history of committed writes the j-th write of a run (counting from 0) carries version j + 1 *)
Theorem version_counts_the_writes ops : hist_ok ops ->
  forall h1 x h2, w_hist (fst (run_ops c ops)) = h1 ++ x :: h2 ->
  r_ver x = Z.of_nat (length (filter (by_run (r_run x)) h1)) + 1.
Proof.
  intros H h1. remember (length h1) as n eqn:En. revert h1 En.
  induction n as [n IH] using lt_wf_ind. intros h1 En x h2 E.
  destruct (writes_are_announced c ops H h1 x h2 E) as (a & Hin). unfold lastrun in Hin.
  destruct (last_opt (filter (by_run (r_run x)) h1)) as [p|] eqn:L.
  - pose proof (store_some_facts c ops H p x a Hin) as F.
    destruct (last_opt_filter_split _ _ _ L) as (l1 & l2 & -> & F2 & Hp). unfold by_run in Hp. apply N.eqb_eq in Hp.
    assert (Hlt : (length l1 < n)%nat) by (subst n; rewrite app_length; cbn; lia).
    assert (E' : w_hist (fst (run_ops c ops)) = l1 ++ p :: (l2 ++ x :: h2)) by (rewrite E, <- app_assoc; reflexivity).
    pose proof (IH _ Hlt l1 eq_refl p _ E') as Vp. rewrite Hp in Vp.
    rewrite filter_app. cbn [filter]. unfold by_run at 2. rewrite Hp, N.eqb_refl. cbn [app]. rewrite F2.
    rewrite app_length. cbn [length]. rewrite (sf_ver _ _ _ F), Vp. lia.
  - destruct (store_new_facts c ops H x a Hin) as (V & _).
    apply last_opt_none in L. rewrite L. cbn. lia.
Qed.

(* ---------- the persisted sequence of a run ---------- *)
(* every committed write of a run stands to the write of that run it replaced in all the relations the token theorem proves of a
   Store and the record it replaces (identity, version + 1, update time, lifecycle edge, finished stays finished, declared
   transition, object clause); the first write of a run is Initiated, version 1, at a declared status *)
Theorem persisted_sequence_facts ops : hist_ok ops ->
  forall h1 x h2, w_hist (fst (run_ops c ops)) = h1 ++ x :: h2 ->
  match lastrun h1 x with
  | Some p => store_facts (ec_graph c) p x
  | None => r_ver x = 1 /\ r_state x = RSInitiated /\ is_valid (ec_graph c) (r_status x) = true
  end.
Proof.
  intros H h1 x h2 E. destruct (writes_are_announced c ops H h1 x h2 E) as (a & Hin).
  destruct (lastrun h1 x) as [p|]; [apply (store_some_facts c ops H p x a Hin)|apply (store_new_facts c ops H x a Hin)].
Qed.

End D.
