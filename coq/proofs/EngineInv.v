(* EngineInv.v — the world invariant behind the token theorems, and how Store preserves it. *)
From WF Require Import model.Base model.RunState model.Routing model.Graph model.Counter model.Shard model.EngineBase
  model.Engine model.Monitors proofs.GraphProofs proofs.RunStateProofs proofs.Hoare.

(* ---------- list helpers ---------- *)
Lemma find_first_some {A} (p : A -> bool) (l : list A) (x : A) :
  find_first p l = Some x -> In x l /\ p x = true.
Proof.
  induction l as [|a l IH]; cbn; [discriminate|].
  destruct (p a) eqn:E; intros H.
  - inversion H; subst. auto.
  - destruct (IH H). auto.
Qed.

Lemma find_first_none {A} (p : A -> bool) (l : list A) :
  find_first p l = None -> forall x, In x l -> p x = false.
Proof.
  induction l as [|a l IH]; cbn; [intros _ x []|].
  destruct (p a) eqn:E; [discriminate|]. intros H x [->|Hx]; auto.
Qed.

Lemma find_first_ext {A} (p q : A -> bool) (l : list A) :
  (forall x, In x l -> p x = q x) -> find_first p l = find_first q l.
Proof.
  induction l as [|a l IH]; cbn; [reflexivity|]. intros H.
  rewrite (H a (or_introl eq_refl)). destruct (q a); [reflexivity|]. apply IH. intros; apply H; auto.
Qed.

Definition by_run (run : N) (r : record) : bool := N.eqb (r_run r) run.

Lemma lookup_run_eq (w : world) (run : N) : lookup_run w run = find_first (by_run run) (w_recs w).
Proof. reflexivity. Qed.

Lemma find_run_in (l : list record) (run : N) (p : record) :
  find_first (by_run run) l = Some p -> In p l /\ r_run p = run.
Proof. intros H. apply find_first_some in H as [H1 H2]. split; [assumption|]. apply N.eqb_eq. exact H2. Qed.

Lemma find_run_nodup (l : list record) (p : record) :
  NoDup (map r_run l) -> In p l -> find_first (by_run (r_run p)) l = Some p.
Proof.
  induction l as [|a l IH]; cbn; [intros _ []|].
  intros Hnd [->|Hin].
  - unfold by_run. now rewrite N.eqb_refl.
  - inversion Hnd as [|x xs Hn Hnd']; subst.
    unfold by_run at 1. destruct (N.eqb (r_run a) (r_run p)) eqn:E.
    + apply N.eqb_eq in E. exfalso. apply Hn. rewrite E. apply in_map. exact Hin.
    + apply IH; assumption.
Qed.

Lemma last_opt_in {A} (l : list A) (x : A) : last_opt l = Some x -> In x l.
Proof.
  induction l as [|a l IH]; cbn; [discriminate|].
  destruct l as [|b l']; [intros H; inversion H; auto|]. intros H. right. apply IH, H.
Qed.

Lemma NoDup_snoc {A} (l : list A) (a : A) : NoDup l -> ~ In a l -> NoDup (l ++ [a]).
Proof.
  induction l as [|x l IH]; cbn; intros Hnd Hn; [constructor; [intros []|constructor]|].
  inversion Hnd as [|y ys Hx Hnd']; subst. constructor.
  - intros Hin. apply in_app_or in Hin as [Hin|[<-|[]]]; [contradiction|]. apply Hn. now left.
  - apply IH; [assumption|]. intros Hin. apply Hn. now right.
Qed.

(* ---------- upsert ---------- *)
Lemma replace_first_map_run (l : list record) (r : record) :
  map r_run (replace_first (by_run (r_run r)) r l) = map r_run l.
Proof.
  induction l as [|a l IH]; cbn; [reflexivity|].
  unfold by_run at 1. destruct (N.eqb (r_run a) (r_run r)) eqn:E; cbn.
  - apply N.eqb_eq in E. now rewrite E.
  - now rewrite IH.
Qed.

Lemma replace_first_in (l : list record) (r x : record) :
  NoDup (map r_run l) -> In x (replace_first (by_run (r_run r)) r l) ->
  x = r \/ (In x l /\ r_run x <> r_run r).
Proof.
  induction l as [|a l IH]; cbn; [intros _ []|].
  intros Hnd. inversion Hnd as [|y ys Hn Hnd']; subst.
  unfold by_run at 1. destruct (N.eqb (r_run a) (r_run r)) eqn:E; cbn.
  - apply N.eqb_eq in E. intros [->|Hx]; [now left|]. right. split; [now right|].
    intros Heq. apply Hn. rewrite E, <- Heq. apply in_map, Hx.
  - apply N.eqb_neq in E. intros [->|Hx]; [right; split; [now left|exact E]|].
    destruct (IH Hnd' Hx) as [->|[H1 H2]]; [now left|right; split; [now right|exact H2]].
Qed.

Lemma replace_first_has (l : list record) (r : record) :
  existsb (fun x => N.eqb (r_run x) (r_run r)) l = true -> In r (replace_first (by_run (r_run r)) r l).
Proof.
  induction l as [|a l IH]; cbn; [discriminate|].
  unfold by_run at 1. destruct (N.eqb (r_run a) (r_run r)); cbn; [now left|]. intros H. right. apply IH, H.
Qed.

Lemma existsb_find_run (l : list record) (run : N) :
  existsb (fun x => N.eqb (r_run x) run) l = match find_first (by_run run) l with Some _ => true | None => false end.
Proof.
  induction l as [|a l IH]; cbn; [reflexivity|]. unfold by_run at 1. destruct (N.eqb (r_run a) run); [reflexivity|exact IH].
Qed.

Lemma upsert_eq (recs : list record) (r : record) :
  upsert recs r = match find_first (by_run (r_run r)) recs with
                  | Some _ => replace_first (by_run (r_run r)) r recs
                  | None => recs ++ [r]
                  end.
Proof. unfold upsert. rewrite existsb_find_run. destruct (find_first _ recs); reflexivity. Qed.

Lemma upsert_nodup (recs : list record) (r : record) :
  NoDup (map r_run recs) -> NoDup (map r_run (upsert recs r)).
Proof.
  intros Hnd. rewrite upsert_eq. destruct (find_first (by_run (r_run r)) recs) eqn:E.
  - now rewrite replace_first_map_run.
  - rewrite map_app. cbn. apply NoDup_snoc; [assumption|].
    intros Hin. apply in_map_iff in Hin as (x & Hx1 & Hx2).
    pose proof (find_first_none _ _ E x Hx2) as F. unfold by_run in F. apply N.eqb_neq in F. auto.
Qed.

Lemma upsert_in (recs : list record) (r x : record) :
  NoDup (map r_run recs) -> In x (upsert recs r) -> x = r \/ (In x recs /\ r_run x <> r_run r).
Proof.
  intros Hnd. rewrite upsert_eq. destruct (find_first (by_run (r_run r)) recs) eqn:E.
  - apply replace_first_in, Hnd.
  - intros Hin. apply in_app_or in Hin as [Hin|[<-|[]]]; [|now left].
    right. split; [assumption|]. pose proof (find_first_none _ _ E x Hin) as F. unfold by_run in F. now apply N.eqb_neq in F.
Qed.

Lemma upsert_has (recs : list record) (r : record) : In r (upsert recs r).
Proof.
  rewrite upsert_eq. destruct (find_first (by_run (r_run r)) recs) eqn:E.
  - apply replace_first_has. rewrite existsb_find_run, E. reflexivity.
  - apply in_or_app. right. now left.
Qed.

Lemma upsert_keeps (recs : list record) (r x : record) :
  In x recs -> r_run x <> r_run r -> In x (upsert recs r).
Proof.
  intros Hin Hne. rewrite upsert_eq. destruct (find_first (by_run (r_run r)) recs).
  - clear -Hin Hne. induction recs as [|a l IH]; cbn; [destruct Hin|].
    unfold by_run at 1. destruct (N.eqb (r_run a) (r_run r)) eqn:E.
    + destruct Hin as [->|Hin]; [apply N.eqb_eq in E; contradiction|now right].
    + destruct Hin as [->|Hin]; [now left|right; apply IH, Hin].
  - apply in_or_app. now left.
Qed.

Lemma upsert_find_same (recs : list record) (r : record) :
  NoDup (map r_run recs) -> find_first (by_run (r_run r)) (upsert recs r) = Some r.
Proof. intros Hnd. apply find_run_nodup; [apply upsert_nodup, Hnd|apply upsert_has]. Qed.

Lemma upsert_find_other (recs : list record) (r : record) (run : N) :
  NoDup (map r_run recs) -> run <> r_run r ->
  find_first (by_run run) (upsert recs r) = find_first (by_run run) recs.
Proof.
  intros Hnd Hne.
  destruct (find_first (by_run run) recs) as [p|] eqn:E.
  - apply find_run_in in E as [Hin Hrun]. subst run.
    apply find_run_nodup; [apply upsert_nodup, Hnd|]. apply upsert_keeps; assumption.
  - destruct (find_first (by_run run) (upsert recs r)) as [q|] eqn:E2; [|reflexivity].
    apply find_run_in in E2 as [Hin Hrun]. destruct (upsert_in _ _ _ Hnd Hin) as [->|[Hin' _]]; [congruence|].
    pose proof (find_first_none _ _ E q Hin') as F. unfold by_run in F. apply N.eqb_neq in F. congruence.
Qed.

(* ---------- C09: older runs of a foreign ID are finished ---------- *)
(* C09: in creation order, every run that is followed by a later run of the same foreign ID is finished *)
Fixpoint older_finished (recs : list record) : Prop :=
  match recs with
  | [] => True
  | r :: t => (existsb (fun x => N.eqb (r_fid x) (r_fid r)) t = true -> rs_finished (r_state r) = true) /\ older_finished t
  end.

Definition same_fid (r : record) (x : record) : bool := N.eqb (r_fid x) (r_fid r).

Lemma existsb_ext' {A} (f g : A -> bool) (l : list A) : (forall x, f x = g x) -> existsb f l = existsb g l.
Proof. intros H. induction l as [|a l IH]; cbn; [reflexivity|]. now rewrite H, IH. Qed.

Lemma existsb_replace_fid (f : record -> bool) (l : list record) (r : record) :
  (forall p, In p l -> r_run p = r_run r -> f p = f r) ->
  existsb f (replace_first (by_run (r_run r)) r l) = existsb f l.
Proof.
  induction l as [|a l IH]; cbn; intros H; [reflexivity|].
  unfold by_run at 1. destruct (N.eqb (r_run a) (r_run r)) eqn:E; cbn.
  - apply N.eqb_eq in E. now rewrite (H a (or_introl eq_refl) E).
  - f_equal. apply IH. intros; apply H; auto.
Qed.

Lemma older_finished_replace (recs : list record) (r : record) :
  NoDup (map r_run recs) ->
  (forall p, In p recs -> r_run p = r_run r -> r_fid r = r_fid p /\ (rs_finished (r_state p) = true -> rs_finished (r_state r) = true)) ->
  older_finished recs -> older_finished (replace_first (by_run (r_run r)) r recs).
Proof.
  induction recs as [|a l IH]; cbn; intros Hnd H Ho; [exact I|]. inversion Hnd as [|y ys Hn Hnd']; subst. destruct Ho as [Ha Hl].
  unfold by_run at 1. destruct (N.eqb (r_run a) (r_run r)) eqn:E; cbn.
  - apply N.eqb_eq in E. destruct (H a (or_introl eq_refl) E) as [Hf Hfin]. split; [|exact Hl].
    intros Hex. apply Hfin, Ha. erewrite existsb_ext'; [exact Hex|]. intros x. cbn. now rewrite Hf.
  - split.
    + intros Hex. apply Ha. rewrite <- Hex. symmetry. apply existsb_replace_fid.
      intros p Hp Hr. destruct (H p (or_intror Hp) Hr) as [Hf _]. now rewrite Hf.
    + apply IH; [exact Hnd'| |exact Hl]. intros p Hp. apply H. now right.
Qed.

Lemma last_opt_cons_nonempty {A} (a : A) (l : list A) : l <> [] -> last_opt (a :: l) = last_opt l.
Proof. destruct l; [contradiction|reflexivity]. Qed.

Lemma older_finished_snoc (recs : list record) (r : record) :
  older_finished recs ->
  (forall l, last_opt (filter (fun x => N.eqb (r_fid x) (r_fid r)) recs) = Some l -> rs_finished (r_state l) = true) ->
  older_finished (recs ++ [r]).
Proof.
  induction recs as [|a l IH]; cbn; intros Ho Hlast; [split; [discriminate|exact I]|]. destruct Ho as [Ha Hl]. split.
  - rewrite existsb_app. cbn. rewrite Bool.orb_false_r. intros Hex. apply Bool.orb_true_iff in Hex as [Hex|Hex]; [apply Ha, Hex|].
    destruct (existsb (fun x => N.eqb (r_fid x) (r_fid a)) l) eqn:El; [apply Ha; reflexivity|].
    apply N.eqb_eq in Hex. apply Hlast. rewrite <- Hex, N.eqb_refl.
    assert (Hnil : filter (fun x => N.eqb (r_fid x) (r_fid a)) l = []).
    { clear -El. induction l as [|b l IH]; cbn in *; [reflexivity|]. apply Bool.orb_false_iff in El as [E1 E2]. rewrite E1. apply IH, E2. }
    erewrite filter_ext; [rewrite Hnil; reflexivity|]. intros x. now rewrite Hex.
  - apply IH; [exact Hl|]. intros x Hx. apply Hlast.
    destruct (N.eqb (r_fid a) (r_fid r)); [|exact Hx].
    rewrite last_opt_cons_nonempty; [exact Hx|]. intros E. rewrite E in Hx. discriminate.
Qed.

(* ---------- the invariant ---------- *)
Section Inv.
Variable c : econfig.
Let g := ec_graph c.

Definition rec_ok (now : Z) (r : record) : Prop :=
  r_desc r = r_status r /\ (r_state r = RSCompleted -> is_terminal g (r_status r) = true) /\
  r_updated r <= now /\ r_state r <> RSUnknown.

Definition del_ready (recs : list record) (run : N) : Prop :=
  exists p, find_first (by_run run) recs = Some p /\ (r_state p = RSReqDataDeleted \/ r_state p = RSDataDeleted).

(* the outbox entry written with the k-th committed Store, and an event carrying an entry's content *)
Definition entry_at (hist : list record) (o : oentry) : Prop :=
  exists r, nth_error hist (N.to_nat (o_id o) - 1) = Some r /\ o = route (o_id o) r /\ (1 <= o_id o)%N.
Definition ev_of (e : event) (o : oentry) : Prop :=
  e_wf e = o_wf o /\ e_topic e = o_topic o /\ e_run e = o_run o /\ e_fid e = o_fid o /\ e_type e = o_type o /\
  e_state e = o_state o /\ e_ver e = o_ver o.
Definition published (w : world) (r : record) : Prop := exists e, In e (w_log w) /\ ev_of e (route 0%N r).

(* events of a connector's source are produced outside the workflow: they announce no write *)
Definition conn_topic (t : topic) : bool := match t with TConn _ => true | _ => false end.

Record WI (w : world) : Prop := mkWI {
  wi_nodup : NoDup (map r_run (w_recs w));
  wi_lt : forall r, In r (w_recs w) -> (r_run r < w_nrun w)%N;
  wi_rec : forall r, In r (w_recs w) -> rec_ok (w_now w) r;
  wi_del_log : forall e, In e (w_log w) -> e_topic e = TDelete -> del_ready (w_recs w) (e_run e);
  wi_del_out : forall o, In o (w_outbox w) -> o_topic o = TDelete -> del_ready (w_recs w) (o_run o);
  (* an event a consumer holds while it waits for the consume lag is an event of its topic in the log *)
  wi_lag : forall p idx e d, In (p, PLag idx e d) (w_procs w) -> In e (w_log w) /\ e_topic e = unit_topic (snd p);
  (* C05: entry IDs number the committed writes; every outbox entry and every event stems from a write; every write is
     still in the outbox or has been published *)
  wi_noid : w_noid w = (N.of_nat (length (w_hist w)) + 1)%N;
  wi_out : forall o, In o (w_outbox w) -> entry_at (w_hist w) o;
  wi_logh : forall e, In e (w_log w) -> conn_topic (e_topic e) = false -> exists r, In r (w_hist w) /\ ev_of e (route 0%N r);
  wi_pub : forall k r, nth_error (w_hist w) k = Some r -> In (route (N.of_nat k + 1)%N r) (w_outbox w) \/ published w r;
  wi_one : older_finished (w_recs w);
  (* the outbox never holds two entries with one ID *)
  wi_oids : NoDup (map o_id (w_outbox w))
}.

Lemma WI_frame (w w' : world) :
  w_recs w' = w_recs w -> w_nrun w' = w_nrun w -> w_now w' = w_now w -> w_log w' = w_log w -> w_outbox w' = w_outbox w ->
  w_procs w' = w_procs w -> w_hist w' = w_hist w -> w_noid w' = w_noid w -> WI w -> WI w'.
Proof.
  intros E1 E2 E3 E4 E5 E6 E7 E8 [H1 H2 H3 H4 H5 H6 H7 H8 H9 H10 H11 H12].
  constructor; unfold published in *; rewrite ?E1, ?E2, ?E3, ?E4, ?E5, ?E6, ?E7, ?E8; assumption.
Qed.

Definition nostale (p : plan) : Prop := forall k o, plan_at p k o <> FStale.

Definition toks_ok (tr : list tok) : Prop := Forall (fun t => tok_ok g t = true) tr.

Definition Inv (s : ost) : Prop := WI (o_w s) /\ nostale (o_plan s) /\ toks_ok (o_trace s).

Lemma WI_lookup (w : world) (run : N) (p : record) :
  WI w -> lookup_run w run = Some p -> In p (w_recs w) /\ r_run p = run /\ rec_ok (w_now w) p.
Proof.
  intros HW H. rewrite lookup_run_eq in H. apply find_run_in in H as [H1 H2]. repeat split; try assumption.
  all: now apply (wi_rec w HW p H1).
Qed.

Lemma WI_lookup_in (w : world) (p : record) : WI w -> In p (w_recs w) -> lookup_run w (r_run p) = Some p.
Proof. intros HW H. rewrite lookup_run_eq. apply find_run_nodup; [apply (wi_nodup w HW)|exact H]. Qed.

(* ---------- the lifecycle relation keeps a run that awaits / has undergone data deletion in those two states ---------- *)
Lemma lc_del_closed (a b : runstate) :
  (a = RSReqDataDeleted \/ a = RSDataDeleted) ->
  (lc a b || (rs_eqb a b && (rs_eqb a RSRunning || rs_eqb a RSDataDeleted))) = true ->
  b = RSReqDataDeleted \/ b = RSDataDeleted.
Proof. intros [->| ->]; destruct b; cbn; intros H; try discriminate; auto. Qed.

(* ---------- what Store needs, and that it then preserves the invariant ---------- *)
Definition store_pre (w : world) (r : record) : Prop :=
  store_ok g (lookup_run w (r_run r)) (stamp c w r) = true /\
  r_updated (stamp c w r) <= w_now w /\ r_state r <> RSUnknown /\
  (lookup_run w (r_run r) = None ->
     (r_run r < w_nrun w)%N /\
     (* a new run: the latest run of its foreign ID, if any, is finished *)
     (forall l, last_opt (filter (fun x => N.eqb (r_fid x) (r_fid r)) (w_recs w)) = Some l -> rs_finished (r_state l) = true)).

Lemma stamp_run (w : world) (r : record) : r_run (stamp c w r) = r_run r.
Proof. unfold stamp. destruct (ec_stamp c); reflexivity. Qed.
Lemma stamp_state (w : world) (r : record) : r_state (stamp c w r) = r_state r.
Proof. unfold stamp. destruct (ec_stamp c); reflexivity. Qed.

Lemma rs_eqb_eq (a b : runstate) : rs_eqb a b = true <-> a = b.
Proof. destruct a, b; cbn; split; intros H; try reflexivity; try discriminate. Qed.

Lemma store_ok_rec_fields (prev : option record) (r : record) :
  store_ok g prev r = true -> r_desc r = r_status r /\ (r_state r = RSCompleted -> is_terminal g (r_status r) = true).
Proof.
  unfold store_ok. intros H. apply andb_prop in H as [H _]. apply andb_prop in H as [H1 H2].
  split; [now apply Z.eqb_eq|]. intros E. rewrite E in H2. cbn in H2. exact H2.
Qed.

Lemma store_ok_lc (p r : record) :
  store_ok g (Some p) r = true ->
  (lc (r_state p) (r_state r) || (rs_eqb (r_state p) (r_state r) && (rs_eqb (r_state p) RSRunning || rs_eqb (r_state p) RSDataDeleted))) = true.
Proof.
  unfold store_ok. intros H. apply andb_prop in H as [_ H].
  repeat (apply andb_prop in H as [H ?]). assumption.
Qed.

Lemma route_topic_delete (id : N) (r : record) : o_topic (route id r) = TDelete -> r_state r = RSReqDataDeleted.
Proof. unfold route, route_topic, route_topic_code. cbn. destruct (r_state r); cbn; intros H; try discriminate; reflexivity. Qed.

Lemma do_store_WI (w : world) (r : record) : WI w -> store_pre w r -> WI (do_store c w r).
Proof.
  intros HW (Hok & Hup & Hst & Hnew).
  set (r' := stamp c w r) in *.
  assert (Hrun : r_run r' = r_run r) by apply stamp_run.
  pose proof (wi_nodup w HW) as Hnd.
  unfold do_store. fold r'. constructor; cbn.
  - apply upsert_nodup, Hnd.
  - intros x Hx. destruct (upsert_in _ _ _ Hnd Hx) as [->|[Hx' _]]; [|apply (wi_lt w HW), Hx'].
    rewrite Hrun. destruct (lookup_run w (r_run r)) as [p|] eqn:E; [|now apply (Hnew eq_refl)].
    apply (WI_lookup w _ _ HW) in E as (Hin & Hr & _). rewrite <- Hr. apply (wi_lt w HW), Hin.
  - intros x Hx. destruct (upsert_in _ _ _ Hnd Hx) as [->|[Hx' _]]; [|apply (wi_rec w HW), Hx'].
    destruct (store_ok_rec_fields _ _ Hok) as [F1 F2]. repeat split; try assumption.
    unfold r'. rewrite stamp_state. exact Hst.
  - (* delete-topic events of the log *)
    intros e He Ht. destruct (wi_del_log w HW e He Ht) as (p & Hp & Hs).
    destruct (N.eq_dec (e_run e) (r_run r')) as [Heq|Hne].
    + exists r'. split; [rewrite Heq; apply upsert_find_same, Hnd|].
      rewrite Heq, Hrun in Hp. rewrite lookup_run_eq in Hok. rewrite Hp in Hok.
      apply (lc_del_closed (r_state p)); [exact Hs|apply store_ok_lc, Hok].
    + exists p. split; [|exact Hs]. rewrite upsert_find_other; assumption.
  - (* delete-topic entries of the outbox *)
    intros o Ho Ht. apply in_app_or in Ho as [Ho|[<-|[]]].
    + destruct (wi_del_out w HW o Ho Ht) as (p & Hp & Hs).
      destruct (N.eq_dec (o_run o) (r_run r')) as [Heq|Hne].
      * exists r'. split; [rewrite Heq; apply upsert_find_same, Hnd|].
        rewrite Heq, Hrun in Hp. rewrite lookup_run_eq in Hok. rewrite Hp in Hok.
        apply (lc_del_closed (r_state p)); [exact Hs|apply store_ok_lc, Hok].
      * exists p. split; [|exact Hs]. rewrite upsert_find_other; assumption.
    + exists r'. split; [cbn; apply upsert_find_same, Hnd|]. left. eapply route_topic_delete, Ht.
  - apply (wi_lag w HW).
  - rewrite app_length. cbn. rewrite (wi_noid w HW). lia.
  - intros o Ho. apply in_app_or in Ho as [Ho|[<-|[]]].
    + destruct (wi_out w HW o Ho) as (x & Hx & Ex & Hle). exists x. split; [|split; assumption].
      rewrite nth_error_app1; [exact Hx|]. apply nth_error_Some. congruence.
    + exists r'. cbn. rewrite (wi_noid w HW). split; [|split; [reflexivity|lia]].
      replace (N.to_nat (N.of_nat (length (w_hist w)) + 1) - 1)%nat with (length (w_hist w)) by lia.
      rewrite nth_error_app2 by lia. now rewrite Nat.sub_diag.
  - intros e He Hc. destruct (wi_logh w HW e He Hc) as (x & Hx & Ex). exists x. split; [apply in_or_app; now left|exact Ex].
  - intros k x Hk. destruct (Nat.lt_ge_cases k (length (w_hist w))) as [Hlt|Hge].
    + rewrite nth_error_app1 in Hk by exact Hlt. destruct (wi_pub w HW k x Hk) as [A|A]; [left; apply in_or_app; now left|right; exact A].
    + rewrite nth_error_app2 in Hk by exact Hge. destruct (k - length (w_hist w))%nat as [|j] eqn:Ej; cbn in Hk; [|destruct j; discriminate].
      inversion Hk; subst x. left. apply in_or_app. right. left. rewrite (wi_noid w HW). f_equal. lia.
  - (* C09 *)
    rewrite upsert_eq. rewrite Hrun. pose proof (wi_one w HW) as Hone.
    destruct (find_first (by_run (r_run r)) (w_recs w)) as [p|] eqn:E.
    + rewrite <- Hrun. apply older_finished_replace; [exact Hnd| |exact Hone].
      intros q Hq Hr. rewrite Hrun in Hr.
      assert (q = p). { rewrite <- Hr in E. rewrite (find_run_nodup _ _ Hnd Hq) in E. now inversion E. } subst q.
      rewrite lookup_run_eq, E in Hok. unfold store_ok in Hok. apply andb_prop in Hok as [_ Hok].
      repeat match type of Hok with (_ && _ = true) => let H' := fresh "C" in apply andb_prop in Hok as [Hok H'] end.
      unfold same_id in Hok. repeat match type of Hok with (_ && _ = true) => let H' := fresh "I" in apply andb_prop in Hok as [Hok H'] end.
      split; [symmetry; now apply N.eqb_eq|]. intros Hf. rewrite Hf in C1. exact C1.
    + apply older_finished_snoc; [exact Hone|]. rewrite lookup_run_eq in Hnew. destruct (Hnew E) as [_ Hl].
      intros l Hl'. apply Hl. assert (Ef : r_fid r' = r_fid r) by (unfold r', stamp; destruct (ec_stamp c); reflexivity). rewrite Ef in Hl'. exact Hl'.
  - (* outbox IDs stay distinct: the new entry's ID is larger than every ID in the outbox *)
    rewrite map_app. cbn. apply NoDup_snoc; [apply (wi_oids w HW)|].
    intros Hin. apply in_map_iff in Hin as (o & Ho1 & Ho2). destruct (wi_out w HW o Ho2) as (x & Hx & _ & Hle).
    assert (Hlt : (N.to_nat (o_id o) - 1 < length (w_hist w))%nat) by (apply nth_error_Some; congruence).
    rewrite Ho1, (wi_noid w HW) in Hlt. lia.
Qed.

End Inv.
