(* StoresProofs.v — memrecordstore (as repaired) refines the reference store on every operation sequence of the domain;
   List pages of the reference store partition the matching runs. *)
From WF Require Import model.Base model.Routing model.Stores proofs.EngineInv.

(* ---------- the map / order / index representation ---------- *)
Lemma m_get_put_same m run r : m_get (m_put m run r) run = Some r.
Proof. unfold m_get, m_put. cbn. now rewrite N.eqb_refl. Qed.

Lemma m_get_filter_other (m : list (N * record)) run run' :
  run' <> run -> m_get (filter (fun x => negb (N.eqb (fst x) run)) m) run' = m_get m run'.
Proof.
  intros Hne. unfold m_get. induction m as [|[k v] m IH]; cbn; [reflexivity|].
  destruct (N.eqb k run) eqn:E; cbn.
  - apply N.eqb_eq in E. subst k. destruct (N.eqb run run') eqn:E2; [apply N.eqb_eq in E2; congruence|exact IH].
  - destruct (N.eqb k run'); [reflexivity|exact IH].
Qed.

Lemma m_get_put_other m run r run' : run' <> run -> m_get (m_put m run r) run' = m_get m run'.
Proof.
  intros Hne. unfold m_put. unfold m_get at 1. cbn. destruct (N.eqb run run') eqn:E; [apply N.eqb_eq in E; congruence|].
  fold (m_get (filter (fun x => negb (N.eqb (fst x) run)) m) run'). now apply m_get_filter_other.
Qed.

Lemma m_collect_put_absent m order run r : ~ In run order -> m_collect (m_put m run r) order = m_collect m order.
Proof.
  induction order as [|id t IH]; cbn; intros Hn; [reflexivity|].
  rewrite m_get_put_other by (intros E; apply Hn; now left). rewrite IH by (intros H; apply Hn; now right). reflexivity.
Qed.

Lemma m_collect_app m o1 o2 : m_collect m (o1 ++ o2) = m_collect m o1 ++ m_collect m o2.
Proof. induction o1 as [|id t IH]; cbn; [reflexivity|]. destruct (m_get m id); cbn; now rewrite IH. Qed.

Lemma m_collect_put_present m order run r :
  NoDup order -> In run order -> (forall id x, m_get m id = Some x -> r_run x = id) -> r_run r = run ->
  (forall id, In id order -> m_get m id <> None) ->
  m_collect (m_put m run r) order = replace_first (by_run run) r (m_collect m order).
Proof.
  intros Hnd Hin Hid Hr Hall. induction order as [|id t IH]; cbn; [destruct Hin|].
  inversion Hnd as [|y ys Hn Hnd']; subst y ys.
  destruct (N.eq_dec id run) as [->|Hne].
  - rewrite m_get_put_same. destruct (m_get m run) as [x|] eqn:E; [|exfalso; apply (Hall run); [now left|exact E]].
    cbn. unfold by_run at 1. rewrite (Hid run x E), N.eqb_refl. f_equal. now apply m_collect_put_absent.
  - rewrite m_get_put_other by exact Hne. destruct (m_get m id) as [x|] eqn:E; [|exfalso; apply (Hall id); [now left|exact E]].
    cbn. unfold by_run at 1. rewrite (Hid id x E). destruct (N.eqb id run) eqn:E2; [apply N.eqb_eq in E2; contradiction|].
    f_equal. apply IH; try assumption.
    + destruct Hin as [Hin|Hin]; [contradiction|exact Hin].
    + intros id' Hin'. apply Hall. now right.
Qed.

Lemma m_collect_find_in m order run :
  NoDup order -> (forall id x, m_get m id = Some x -> r_run x = id) -> In run order ->
  find_first (by_run run) (m_collect m order) = m_get m run.
Proof.
  intros Hnd Hid. induction order as [|id t IH]; cbn; intros Hin; [destruct Hin|]. inversion Hnd as [|y ys Hn Hnd']; subst y ys.
  destruct (N.eq_dec id run) as [->|Hne].
  - destruct (m_get m run) as [x|] eqn:E.
    + cbn. unfold by_run at 1. now rewrite (Hid run x E), N.eqb_refl.
    + (* absent from the map: nothing later carries this run either *)
      clear -Hn Hid E. induction t as [|a t IH]; cbn; [reflexivity|].
      destruct (m_get m a) as [x|] eqn:Ea; [|apply IH; intros H; apply Hn; now right].
      cbn. unfold by_run at 1. rewrite (Hid a x Ea). destruct (N.eqb a run) eqn:E2; [apply N.eqb_eq in E2; exfalso; apply Hn; now left|].
      apply IH. intros H. apply Hn. now right.
  - destruct Hin as [Hin|Hin]; [contradiction|]. destruct (m_get m id) as [x|] eqn:E; [|apply IH; assumption].
    cbn. unfold by_run at 1. rewrite (Hid id x E). destruct (N.eqb id run) eqn:E2; [apply N.eqb_eq in E2; contradiction|]. apply IH; assumption.
Qed.

Lemma m_collect_find_out m order run :
  (forall id x, m_get m id = Some x -> r_run x = id) -> ~ In run order -> find_first (by_run run) (m_collect m order) = None.
Proof.
  intros Hid. induction order as [|id t IH]; cbn; intros Hn; [reflexivity|].
  destruct (m_get m id) as [x|] eqn:E; [|apply IH; intros H; apply Hn; now right].
  cbn. unfold by_run at 1. rewrite (Hid id x E). destruct (N.eqb id run) eqn:E2; [apply N.eqb_eq in E2; exfalso; apply Hn; now left|].
  apply IH. intros H. apply Hn. now right.
Qed.

Lemma m_collect_find m order run :
  NoDup order -> (forall id x, m_get m id = Some x -> r_run x = id) -> (forall id, In id order <-> m_get m id <> None) ->
  find_first (by_run run) (m_collect m order) = m_get m run.
Proof.
  intros Hnd Hid Hall. destruct (m_get m run) as [x|] eqn:E.
  - rewrite <- E. apply m_collect_find_in; try assumption. apply Hall. congruence.
  - apply m_collect_find_out; [exact Hid|]. intros H. apply Hall in H. contradiction.
Qed.

Lemma m_collect_runs_in m order x :
  (forall id y, m_get m id = Some y -> r_run y = id) -> In x (m_collect m order) -> In (r_run x) order /\ m_get m (r_run x) = Some x.
Proof.
  intros Hid. induction order as [|a t IH]; cbn; [intros []|].
  destruct (m_get m a) as [y|] eqn:E.
  - intros [<-|H]; [rewrite (Hid a y E); auto|destruct (IH H); auto].
  - intros H. destruct (IH H); auto.
Qed.

Lemma m_collect_nodup m order :
  NoDup order -> (forall id y, m_get m id = Some y -> r_run y = id) -> NoDup (map r_run (m_collect m order)).
Proof.
  intros Hnd Hid. induction order as [|a t IH]; cbn; [constructor|]. inversion Hnd as [|y ys Hn Hnd']; subst y ys.
  destruct (m_get m a) as [y|] eqn:E; [|apply IH, Hnd']. cbn. constructor; [|apply IH, Hnd'].
  rewrite (Hid a y E). intros Hin. apply in_map_iff in Hin as (z & Hz1 & Hz2).
  destruct (m_collect_runs_in m t z Hid Hz2) as [Hz3 _]. apply Hn. now rewrite <- Hz1.
Qed.

(* ---------- the simulation ---------- *)
Definition key_of (wf fid : N) (x : record) : bool := N.eqb (r_wf x) wf && N.eqb (r_fid x) fid.

Record srel (m : mstore) (r : rstore) (known : list (N * (N * N))) : Prop := {
  sr_recs : m_collect (ms_store m) (ms_order m) = rs_recs r;
  sr_out : ms_outbox m = rs_outbox r;
  sr_noid : ms_noid m = rs_noid r;
  sr_nodup : NoDup (ms_order m);
  sr_all : forall id, In id (ms_order m) <-> m_get (ms_store m) id <> None;
  sr_id : forall id x, m_get (ms_store m) id = Some x -> r_run x = id;
  sr_key : forall wf fid, k_get (ms_key m) wf fid = option_map r_run (last_opt (filter (key_of wf fid) (rs_recs r)));
  sr_known : forall x, In x (rs_recs r) ->
             exists y, find_first (fun y => N.eqb (fst y) (r_run x)) known = Some y /\ snd y = (r_wf x, r_fid x)
}.

Lemma srel0 : srel mstore0 rstore0 [].
Proof.
  constructor; cbn; try reflexivity.
  - constructor.
  - intros id. split; [intros []|intros H; now apply H].
  - intros; discriminate.
  - intros x [].
Qed.

Lemma k_get_put_same k wf fid run : k_get (k_put k wf fid run) wf fid = Some run.
Proof. unfold k_get, k_put. cbn. now rewrite !N.eqb_refl. Qed.

Lemma k_get_put_other k wf fid run wf' fid' : (wf', fid') <> (wf, fid) -> k_get (k_put k wf fid run) wf' fid' = k_get k wf' fid'.
Proof.
  intros Hne. unfold k_get, k_put. cbn.
  destruct (N.eqb wf wf' && N.eqb fid fid') eqn:E.
  { apply andb_prop in E as [E1 E2]. apply N.eqb_eq in E1, E2. subst. contradiction. }
  induction k as [|[[a b] v] k IH]; cbn; [reflexivity|].
  destruct (N.eqb a wf && N.eqb b fid) eqn:E2; cbn.
  - apply andb_prop in E2 as [A B]. apply N.eqb_eq in A, B. subst a b.
    destruct (N.eqb wf wf' && N.eqb fid fid') eqn:E3; [discriminate|exact IH].
  - destruct (N.eqb a wf' && N.eqb b fid'); [reflexivity|exact IH].
Qed.

Lemma last_opt_app {A} (l : list A) (x : A) : last_opt (l ++ [x]) = Some x.
Proof. induction l as [|a l IH]; cbn; [reflexivity|]. destruct (l ++ [x]) eqn:E; [destruct l; discriminate|]. exact IH. Qed.

Lemma filter_replace_same_key (p : record -> bool) (l : list record) (r : record) (run : N) :
  (forall x, In x l -> r_run x = run -> p x = p r) ->
  map r_run (filter p (replace_first (by_run run) r l)) = map r_run (filter p l) \/ True.
Proof. intros _. now right. Qed.

Lemma replace_first_filter_runs (p : record -> bool) (l : list record) (r : record) :
  (forall x, In x l -> r_run x = r_run r -> p x = p r) ->
  map r_run (filter p (replace_first (by_run (r_run r)) r l)) = map r_run (filter p l).
Proof.
  induction l as [|a l IH]; cbn; intros H; [reflexivity|].
  unfold by_run at 1. destruct (N.eqb (r_run a) (r_run r)) eqn:E; cbn.
  - apply N.eqb_eq in E. rewrite <- (H a (or_introl eq_refl) E). destruct (p a); cbn; [now rewrite E|reflexivity].
  - destruct (p a); cbn; [f_equal|]; apply IH; intros; apply H; auto.
Qed.

Lemma last_opt_map_run (l l' : list record) : map r_run l = map r_run l' -> option_map r_run (last_opt l) = option_map r_run (last_opt l').
Proof.
  revert l'. induction l as [|a l IH]; intros [|b l'] H; cbn in *; try discriminate; [reflexivity|].
  inversion H as [[H1 H2]]. destruct l as [|a2 l], l' as [|b2 l']; cbn in *; try discriminate; [now rewrite H1|].
  apply (IH (b2 :: l')). exact H2.
Qed.

Lemma sstep_sim (m : mstore) (r : rstore) known (o : sop) :
  srel m r known -> sop_ok known o = true ->
  snd (mem_step m o) = snd (ref_step r o) /\
  srel (fst (mem_step m o)) (fst (ref_step r o)) (match o with SStore x => (r_run x, (r_wf x, r_fid x)) :: known | _ => known end).
Proof.
  intros [Hrecs Hout Hnoid Hnd Hall Hid Hkey Hknown] Hok.
  destruct o as [x|x|run|wf fid|wf limit|id|wf offset limit desc f]; cbn [mem_step ref_step fst snd].
  - (* Store *)
    split; [reflexivity|].
    assert (Hfind : find_first (by_run (r_run x)) (rs_recs r) = m_get (ms_store m) (r_run x)).
    { rewrite <- Hrecs. apply m_collect_find; assumption. }
    unfold r_upsert. rewrite existsb_find_run, Hfind.
    destruct (m_get (ms_store m) (r_run x)) as [old|] eqn:Eold.
    + (* an existing run *)
      assert (Hin : In (r_run x) (ms_order m)) by (apply Hall; congruence).
      assert (Hsame : forall y, In y (rs_recs r) -> r_run y = r_run x -> r_wf y = r_wf x /\ r_fid y = r_fid x).
      { intros y Hy Hr. destruct (Hknown y Hy) as (k & Hk & Hs). cbn in Hok. rewrite Hr in Hk.
        rewrite Hk in Hok. rewrite Hs in Hok. cbn in Hok.
        apply andb_prop in Hok as [A B]. apply N.eqb_eq in A, B. auto. }
      constructor; cbn.
      * rewrite <- Hrecs. apply m_collect_put_present; try assumption; try reflexivity. intros id' H'. now apply Hall.
      * now rewrite Hout, Hnoid.
      * now rewrite Hnoid.
      * exact Hnd.
      * intros id'. destruct (N.eq_dec id' (r_run x)) as [->|Hne]; [rewrite m_get_put_same; split; [discriminate|auto]|].
        rewrite m_get_put_other by exact Hne. apply Hall.
      * intros id' y. destruct (N.eq_dec id' (r_run x)) as [->|Hne]; [rewrite m_get_put_same; intros E; now inversion E|].
        rewrite m_get_put_other by exact Hne. apply Hid.
      * intros wf fid. rewrite Hkey. apply last_opt_map_run. symmetry. apply replace_first_filter_runs.
        intros y Hy Hr. destruct (Hsame y Hy Hr) as [A B]. unfold key_of. now rewrite A, B.
      * intros y Hy.
        assert (Hndr : NoDup (map r_run (rs_recs r))) by (rewrite <- Hrecs; apply m_collect_nodup; assumption).
        destruct (replace_first_in _ _ _ Hndr Hy) as [->|[Hy' Hne]].
        -- exists (r_run x, (r_wf x, r_fid x)). cbn. now rewrite N.eqb_refl.
        -- destruct (Hknown y Hy') as (k & Hk & Hs). exists k. cbn. destruct (N.eqb (r_run x) (r_run y)) eqn:E; [apply N.eqb_eq in E; congruence|]. auto.
    + (* a new run *)
      assert (Hnin : ~ In (r_run x) (ms_order m)) by (intros H; apply Hall in H; contradiction).
      constructor; cbn.
      * rewrite m_collect_app, m_collect_put_absent by exact Hnin. cbn. rewrite m_get_put_same, Hrecs. reflexivity.
      * now rewrite Hout, Hnoid.
      * now rewrite Hnoid.
      * apply NoDup_snoc; assumption.
      * intros id'. rewrite in_app_iff. cbn. destruct (N.eq_dec id' (r_run x)) as [->|Hne]; [rewrite m_get_put_same; split; [discriminate|auto]|].
        rewrite m_get_put_other by exact Hne. rewrite <- Hall. split; [intros [H|[H|[]]]; [exact H|congruence]|auto].
      * intros id' y. destruct (N.eq_dec id' (r_run x)) as [->|Hne]; [rewrite m_get_put_same; intros E; now inversion E|].
        rewrite m_get_put_other by exact Hne. apply Hid.
      * intros wf fid. rewrite filter_app. cbn. unfold key_of at 2. destruct (N.eqb (r_wf x) wf && N.eqb (r_fid x) fid) eqn:E.
        -- apply andb_prop in E as [A B]. apply N.eqb_eq in A, B. subst wf fid. rewrite k_get_put_same, last_opt_app. reflexivity.
        -- rewrite app_nil_r, k_get_put_other; [apply Hkey|]. intros H. inversion H; subst. now rewrite !N.eqb_refl in E.
      * intros y Hy. apply in_app_or in Hy as [Hy|[<-|[]]].
        -- destruct (Hknown y Hy) as (k & Hk & Hs). cbn. destruct (N.eqb (r_run x) (r_run y)) eqn:E.
           ++ apply N.eqb_eq in E. exfalso. rewrite <- Hrecs in Hy.
              destruct (m_collect_runs_in _ _ _ Hid Hy) as [Hin' _]. apply Hnin. now rewrite E.
           ++ exists k. auto.
        -- exists (r_run x, (r_wf x, r_fid x)). cbn. now rewrite N.eqb_refl.
  - split; [reflexivity|]. constructor; assumption.
  - (* Lookup *)
    split; [|constructor; assumption]. f_equal. rewrite <- Hrecs.
    change (fun r0 : record => N.eqb (r_run r0) run) with (by_run run). symmetry. apply m_collect_find; assumption.
  - (* Latest *)
    split; [|constructor; assumption]. f_equal. rewrite Hkey. fold (key_of wf fid).
    destruct (last_opt (filter (key_of wf fid) (rs_recs r))) as [l|] eqn:E; cbn; [|reflexivity].
    apply last_opt_in in E. apply filter_In in E as [E _]. rewrite <- Hrecs in E.
    apply (m_collect_runs_in _ _ _ Hid E).
  - split; [now rewrite Hout|constructor; assumption].
  - split; [reflexivity|]. constructor; cbn; try assumption. now rewrite Hout.
  - split; [now rewrite Hrecs|constructor; assumption].
Qed.

Theorem stores_refine : forall ops m r known, srel m r known -> sops_ok known ops = true -> mem_run m ops = ref_run r ops.
Proof.
  induction ops as [|o ops IH]; intros m r known H Hok; cbn; [reflexivity|].
  cbn in Hok. apply andb_prop in Hok as [Ho Hrest].
  destruct (sstep_sim m r known o H Ho) as [Hb Hr]. destruct (mem_step m o) as [m' b], (ref_step r o) as [r' b']. cbn in *.
  subst b'. f_equal. eapply IH; [exact Hr|exact Hrest].
Qed.

(* ---------- List pages of the reference store ---------- *)
Lemma filter_len {A} (p : A -> bool) (l : list A) : (length (filter p l) <= length l)%nat.
Proof. induction l as [|a l IH]; cbn; [lia|]. destruct (p a); cbn; lia. Qed.

Lemma firstn_skipn_pages {A} (l : list A) (k : nat) : forall n,
  concat (map (fun i => firstn k (skipn (i * k) l)) (seq 0 n)) = firstn (n * k) l.
Proof.
  induction n as [|n IH]; [reflexivity|].
  rewrite seq_S, map_app, concat_app, IH. cbn. rewrite app_nil_r.
  replace (k + n * k)%nat with (n * k + k)%nat by lia.
  clear IH. revert l. induction (n * k)%nat as [|j IHj]; intros l; cbn; [reflexivity|].
  destruct l as [|a l]; cbn; [now rewrite firstn_nil|]. f_equal. apply IHj.
Qed.

(* pages at offsets 0, k, 2k, ... (k > 0) concatenated enumerate exactly the matching runs, in creation order (reversed
   when descending), each once *)
Theorem list_pages_partition (s : rstore) (wf : N) (f : sfilter) (desc : bool) (k n : nat) :
  (0 < k)%nat -> (length (rs_recs s) <= n * k)%nat ->
  let all := (if desc then rev (filter (smatches wf f) (rs_recs s)) else filter (smatches wf f) (rs_recs s)) in
  concat (map (fun i => match snd (ref_step s (SList wf (Z.of_nat (i * k)) (Z.of_nat k) desc f)) with ObList l => l | _ => [] end) (seq 0 n)) = all.
Proof.
  intros Hk Hn all. cbn [ref_step snd]. fold all.
  assert (Hpage : forall i, page (Z.of_nat (i * k)) (Z.of_nat k) all = firstn k (skipn (i * k) all)).
  { intros i. unfold page. destruct (Z.of_nat k =? 0) eqn:E; [apply Z.eqb_eq in E; lia|]. now rewrite !Nat2Z.id. }
  rewrite (map_ext _ _ Hpage), firstn_skipn_pages. apply firstn_all2.
  unfold all. destruct desc; rewrite ?rev_length; (eapply Nat.le_trans; [apply filter_len|exact Hn]).
Qed.
