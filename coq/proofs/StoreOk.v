(* StoreOk.v — "a Store that returned nil has taken effect", for EVERY state; hence C09's "Trigger succeeds only when ... it then
   persists exactly one new run": a Trigger that returned nil left its new run — fresh run ID, Initiated, version 1 — as the
   stored record of that run and as the last committed write. No invariant, no NoDup. *)
From WF Require Import model.Base model.RunState model.Routing model.Graph model.Counter model.Shard model.EngineBase model.Engine
  proofs.Hoare proofs.EngineInv proofs.Frame proofs.HandlerFacts.
Open Scope list_scope.

Lemma find_upsert_same (recs : list record) (r : record) :
  find_first (fun x => N.eqb (r_run x) (r_run r)) (upsert recs r) = Some r.
Proof.
  unfold upsert. destruct (existsb (fun x => N.eqb (r_run x) (r_run r)) recs) eqn:Ex.
  - induction recs as [|x xs IH]; cbn; [discriminate Ex|]. cbn in Ex.
    destruct (N.eqb (r_run x) (r_run r)) eqn:E1; cbn.
    + rewrite N.eqb_refl. reflexivity.
    + rewrite E1. apply IH. exact Ex.
  - induction recs as [|x xs IH]; cbn.
    + rewrite N.eqb_refl. reflexivity.
    + cbn in Ex. apply Bool.orb_false_iff in Ex as [E1 Ex]. rewrite E1. apply IH, Ex.
Qed.

Lemma stamp_run' c w r : r_run (stamp c w r) = r_run r.
Proof. unfold stamp. destruct (ec_stamp c); reflexivity. Qed.

Lemma lookup_do_store c w r : lookup_run (do_store c w r) (r_run r) = Some (stamp c w r).
Proof. unfold lookup_run, do_store. cbn. rewrite <- (stamp_run' c w r). apply find_upsert_same. Qed.

Lemma hist_do_store c w r : w_hist (do_store c w r) = w_hist w ++ [stamp c w r].
Proof. reflexivity. Qed.

(* a Store that returned nil was applied: the world afterwards is the world before with the record written *)
Lemma p_store_ok_effect c r s s' : p_store c r s = (Ok tt, s') -> o_w s' = do_store c (o_w s) r.
Proof.
  unfold p_store. intros H.
  destruct (prim_spec2 KST true (fun d w => TStore (lookup_run w (r_run r)) (stamp c w r) (disp_res d)) (fun w => do_store c w r)
              (fun d _ => disp_ret d tt) s) as (d & s1 & W & _ & _ & _ & _ & Eq).
  rewrite Eq in H. destruct d; cbn in H; inversion H; subst; cbn in W; exact W.
Qed.

(* and one that failed BEFORE taking effect changed nothing in the world *)
Lemma p_store_answer c r s : exists d s1, o_w s1 = (if disp_effect d then do_store c (o_w s) r else o_w s) /\ p_store c r s = disp_ret d tt s1.
Proof.
  unfold p_store.
  destruct (prim_spec2 KST true (fun d w => TStore (lookup_run w (r_run r)) (stamp c w r) (disp_res d)) (fun w => do_store c w r)
              (fun d _ => disp_ret d tt) s) as (d & s1 & W & _ & _ & _ & _ & Eq).
  exists d, s1. split; [exact W|exact Eq].
Qed.

Section T.
Variable c : econfig.

Theorem trigger_success_persisted fid start seed s s' :
  api_trigger c fid start seed s = (Ok tt, s') ->
  exists r, r_fid r = fid /\ r_state r = RSInitiated /\ r_ver r = 1 /\ r_obj r = OVal seed [] /\
            lookup_run (o_w s') (r_run r) = Some r /\ last (w_hist (o_w s')) r = r /\ w_hist (o_w s') <> [].
Proof.
  intros H.
  destruct (trigger_start c start) as [st0|] eqn:Hs.
  2:{ destruct (trigger_rejects_bad_start c fid start seed s (or_introl Hs)) as (e & He). congruence. }
  destruct (is_valid (ec_graph c) st0) eqn:Hv.
  2:{ destruct (trigger_rejects_bad_start c fid start seed s (or_intror (ex_intro _ st0 (conj Hs Hv)))) as (e & He). congruence. }
  destruct (p_latest fid s) as [[lastr|e] s1] eqn:Hl.
  2:{ rewrite (trigger_lookup_failed c fid start seed st0 s e s1 Hs Hv Hl) in H. discriminate. }
  destruct (match lastr with Some l => rs_valid (r_state l) && negb (rs_finished (r_state l)) | None => false end) eqn:Hc.
  { destruct lastr as [l|]; [|discriminate]. apply andb_prop in Hc as [Ha Hb]. apply Bool.negb_true_iff in Hb.
    rewrite (trigger_refused_while_unfinished c fid start seed st0 s l s1 Hs Hv Hl Ha Hb) in H. discriminate. }
  rewrite (trigger_creates_exactly_one c fid start seed st0 s lastr s1 Hs Hv Hl Hc) in H.
  apply p_store_ok_effect in H. cbn [o_w] in H.
  set (w1 := set_nrun (o_w s1) (w_nrun (o_w s1) + 1)%N) in *.
  set (r0 := new_run_record fid st0 seed (o_w s1)) in *.
  exists (stamp c w1 r0). rewrite H.
  assert (Hst : forall r, r_fid (stamp c w1 r) = r_fid r /\ r_state (stamp c w1 r) = r_state r /\ r_ver (stamp c w1 r) = r_ver r /\
                          r_obj (stamp c w1 r) = r_obj r /\ r_run (stamp c w1 r) = r_run r).
  { intros r. unfold stamp. destruct (ec_stamp c); cbn; repeat split. }
  destruct (Hst r0) as (A1 & A2 & A3 & A4 & A5).
  repeat split.
  - rewrite A1. reflexivity.
  - rewrite A2. reflexivity.
  - rewrite A3. reflexivity.
  - rewrite A4. reflexivity.
  - rewrite A5. apply lookup_do_store.
  - rewrite hist_do_store. apply last_last.
  - rewrite hist_do_store. intros E. apply app_eq_nil in E as [_ E]. discriminate.
Qed.

(* what a lookup that returned a record returned: a record of the run asked for (a lagging replica included) *)
Lemma stale_run_run w run r : stale_run w run = Some r -> r_run r = run.
Proof.
  unfold stale_run. destruct (rev (filter (fun r => N.eqb (r_run r) run) (w_hist w))) as [|a [|b l]] eqn:E.
  - intros H. apply find_first_some in H as [_ H]. apply N.eqb_eq. exact H.
  - intros H. apply find_first_some in H as [_ H]. apply N.eqb_eq. exact H.
  - intros H. inversion H. subst b.
    assert (Hin : In r (rev (filter (fun r => N.eqb (r_run r) run) (w_hist w)))) by (rewrite E; right; left; reflexivity).
    apply in_rev in Hin. apply filter_In in Hin as [_ Hin]. apply N.eqb_eq. exact Hin.
Qed.

Lemma p_lookup_some_run run s r s1 : p_lookup run s = (Ok (Some r), s1) -> r_run r = run.
Proof.
  unfold p_lookup. intros H.
  match type of H with prim ?k ?ctx ?T ?E ?X s = _ => destruct (prim_spec2 k ctx T E X s) as (d & s0 & _ & _ & _ & _ & _ & Eq) end.
  rewrite Eq in H. destruct d; cbn in H; inversion H as [[H1 H2]].
  - apply find_first_some in H1 as [_ H1]. apply N.eqb_eq. exact H1.
  - apply stale_run_run in H1. exact H1.
Qed.

(* C03 / C08: a Pause / Resume / Cancel / DeleteData that returned nil was allowed by the table from the state the controller
   read, and has left the run stored in the target state *)
Theorem ctl_success_persisted run o s s' :
  api_ctl c run o s = (Ok tt, s') ->
  exists r0 r, rs_table (r_state r0) (ctl_target o) = true /\ r_run r0 = run /\
               lookup_run (o_w s') run = Some r /\ r_state r = ctl_target o /\ r_ver r = r_ver r0 + 1 /\ r_status r = r_status r0 /\
               last (w_hist (o_w s')) r = r /\ w_hist (o_w s') <> [].
Proof.
  unfold api_ctl. unfold bind at 1. destruct (p_lookup run s) as [[[r0|]|e] s1] eqn:Hl; cbn; try discriminate.
  pose proof (p_lookup_some_run _ _ _ _ Hl) as Hrun.
  unfold ctl_do. destruct (ctl_update r0 (ctl_target o) 4) as [r'|] eqn:Hu.
  2:{ unfold bind, ret. cbn. discriminate. }
  unfold bind at 1. unfold bind at 1. unfold catch.
  destruct (p_store c r' s1) as [[[]|e] s2] eqn:Hp; cbn; [|discriminate].
  intros H. inversion H. subst s2.
  apply p_store_ok_effect in Hp.
  unfold ctl_update in Hu. destruct (rs_table (r_state r0) (ctl_target o)) eqn:Ht; [|discriminate]. inversion Hu. subst r'.
  exists r0, (stamp c (o_w s1) (bump (set_reason (set_state r0 (ctl_target o)) 4))).
  rewrite Hp. split; [exact Ht|]. split; [exact Hrun|].
  split; [rewrite <- Hrun at 1; apply (lookup_do_store c (o_w s1) (bump (set_reason (set_state r0 (ctl_target o)) 4)))|].
  split; [unfold stamp; destruct (ec_stamp c); reflexivity|].
  split; [unfold stamp; destruct (ec_stamp c); reflexivity|].
  split; [unfold stamp; destruct (ec_stamp c); reflexivity|].
  split; [rewrite hist_do_store; apply last_last|].
  rewrite hist_do_store. intros E. apply app_eq_nil in E as [_ E]. discriminate.
Qed.

(* ---------- C14: the hook consumer returns nil only after the hook ran, unless the run's data is gone ---------- *)
(* hook.go runHook, for EVERY state (fault plan, lease, stale reads included): when the lookup answers with a record whose data is
   still there — whatever its run state, RequestedDataDeleted included — and the handler returns nil (so that the event is then
   acknowledged), the hook was invoked on exactly that record and returned nil: that invocation is the last token of the trace
   (unless the instance is crashed, in which case nothing is recorded and nothing is acknowledged either) *)
Theorem hook_nil_means_invoked st k e s r s1 s' :
  p_lookup (e_run e) s = (Ok (Some r), s1) -> r_obj r <> ODeleted ->
  hook_handler st k e s = (Ok tt, s') ->
  o_dead s1 = false ->
  exists pers now, o_trace s' = TUser (UFHook st) r pers now UOk :: o_trace s1.
Proof.
  intros Hl Hobj H Hd. unfold hook_handler in H. unfold bind at 1 in H. rewrite Hl in H.
  destruct (r_obj r) eqn:Eo; [|congruence].
  unfold bind at 1 in H. unfold att_bump in H. cbn [fst snd] in H.
  unfold bind at 1 in H. unfold get_w in H. cbn [fst snd o_w] in H.
  unfold bind at 1 in H. unfold emit in H. cbn [o_dead] in H. rewrite Hd in H. cbn [fst snd] in H.
  match type of H with context [if ?b then UErr _ else UOk] => destruct b end.
  - unfold fail in H. discriminate H.
  - unfold ret in H. apply (f_equal snd) in H. cbn [snd] in H. rewrite <- H. cbn [o_trace]. eexists. eexists. reflexivity.
Qed.

(* ---------- C11 / C20: the error back-off ends at once when the role is lost ---------- *)
(* workflow.go runOnce, the wait after an error, for EVERY state: a process parked in its error back-off whose lease is gone (role
   revoked, workflow stopped, instance crashed) does not sleep the back-off out — at its next step the wait comes back cancelled,
   the role is released and the process is back to asking for its role, without a single adapter call; with the lease intact
   it stays parked until the deadline and then likewise goes back to asking for its role *)
Theorem backoff_step inst u d s :
  proc_op c inst u (PBackoff d) s =
  if negb (o_lease s && negb (o_dead s))
  then (emit (TCall KTW [d] RCancel []) ;;; m_release u inst ;;; ret PIdle) s
  else if d >? w_now (o_w s)
       then (emit (TCall KTW [d] RBlocked []) ;;; ret (PBackoff d)) s
       else (emit (TCall KTW [d] ROk []) ;;; m_release u inst ;;; ret PIdle) s.
Proof.
  unfold proc_op. unfold bind at 1, get_w. cbn [fst snd]. unfold bind at 1, lease_live. cbn [fst snd].
  destruct (o_lease s && negb (o_dead s)); cbn [negb]; [|reflexivity].
  destruct (d >? w_now (o_w s)); reflexivity.
Qed.

Theorem backoff_cancelled_when_role_lost inst u d s :
  o_lease s && negb (o_dead s) = false ->
  fst (proc_op c inst u (PBackoff d) s) = Ok PIdle /\
  o_w (snd (proc_op c inst u (PBackoff d) s)) = release_role (o_w s) u inst /\
  o_trace (snd (proc_op c inst u (PBackoff d) s)) = (if o_dead s then o_trace s else TCall KTW [d] RCancel [] :: o_trace s).
Proof.
  intros Hl. rewrite backoff_step, Hl. cbn [negb].
  unfold bind, emit, m_release, get_w, put_w, ret. destruct (o_dead s) eqn:Hd; cbn [fst snd o_w o_trace o_dead]; repeat split.
Qed.

End T.
