(* Frame.v — what no operation of the engine model ever does, for EVERY start state (no invariant needed):
   the stream log is append-only, the trace only grows, the process table is not touched inside an operation, a crashed
   instance stays crashed, and consumer positions ([w_cur]) change only through Ack.
   [fr CR m]: every run of [m] is such a step, with the committed positions related by [CR]. *)
From WF Require Import model.Base model.RunState model.Routing model.Graph model.Counter model.Shard model.EngineBase model.Engine
  proofs.Hoare.

(* ---------- sharper specifications of the primitives (they also say when a token is NOT recorded) ---------- *)
Lemma dispatch_spec2 (k : ckind) (ctx : bool) (s : ost) :
  exists d, fst (dispatch k ctx s) = Ok d /\ o_w (snd (dispatch k ctx s)) = o_w s /\
            o_trace (snd (dispatch k ctx s)) = o_trace s /\
            (o_dead s = true -> o_dead (snd (dispatch k ctx s)) = true) /\
            (disp_effect d = true -> o_dead (snd (dispatch k ctx s)) = false) /\
            (o_dead (snd (dispatch k ctx s)) = true -> d = DoCancel).
Proof.
  unfold dispatch, next_fault. cbn.
  destruct (o_dead s) eqn:Hd; [eexists; cbn; repeat split; auto; intros; discriminate|].
  destruct (ctx && negb (o_lease s)); [eexists; cbn; repeat split; auto; intros; congruence|].
  destruct (plan_at (o_plan s) k (count_get (o_counts s) k)) eqn:E; cbn;
    try (eexists; cbn; repeat split; auto; intros; congruence).
Qed.

Lemma emit_spec2 (t : tok) (s : ost) :
  fst (emit t s) = Ok tt /\ o_w (snd (emit t s)) = o_w s /\ o_dead (snd (emit t s)) = o_dead s /\
  o_trace (snd (emit t s)) = (if o_dead s then o_trace s else t :: o_trace s).
Proof. unfold emit. destruct (o_dead s) eqn:E; cbn; rewrite ?E; auto. Qed.

Lemma prim_spec2 {A} k ctx T E (X : disp -> world -> M A) (s : ost) :
  exists d s1,
    o_w s1 = (if disp_effect d then E (o_w s) else o_w s) /\
    o_trace s1 = (if o_dead s1 then o_trace s else T d (o_w s) :: o_trace s) /\
    (o_dead s = true -> o_dead s1 = true) /\ (disp_effect d = true -> o_dead s1 = false) /\
    (o_dead s1 = true -> d = DoCancel) /\
    prim k ctx T E X s = X d (o_w s) s1.
Proof.
  unfold prim. unfold bind at 1. destruct (dispatch_spec2 k ctx s) as (d & E1 & E2 & E3 & E4 & E5 & E6).
  destruct (dispatch k ctx s) as [rd s0]; cbn in E1, E2, E3, E4, E5, E6. subst rd.
  unfold bind at 1, get_w. cbn. rewrite E2.
  unfold bind at 1. destruct (emit_spec2 (T d (o_w s)) s0) as (F1 & F2 & F3 & F4).
  destruct (emit (T d (o_w s)) s0) as [re s0']; cbn in F1, F2, F3, F4. subst re.
  unfold bind at 1.
  destruct (disp_effect d) eqn:Ed.
  - unfold put_w. cbn.
    exists d, (mkOst (E (o_w s)) (o_plan s0') (o_counts s0') (o_trace s0') (o_lease s0') (o_dead s0')).
    rewrite Ed. cbn. rewrite F3, F4, E3. repeat split; auto.
  - cbn. exists d, s0'. rewrite Ed, F2, E2, F3, F4, E3. repeat split; auto.
Qed.

Section Frame.
Variable c : econfig.
Variable CR : list (eunit * nat) -> list (eunit * nat) -> Prop.
Hypothesis HCR : (forall x, CR x x) /\ (forall x y z, CR x y -> CR y z -> CR x z).
Let CR_refl : forall x, CR x x := proj1 HCR.
Let CR_trans : forall x y z, CR x y -> CR y z -> CR x z := proj2 HCR.

Definition fr_step (s s' : ost) : Prop :=
  (exists l, w_log (o_w s') = w_log (o_w s) ++ l) /\ (exists t, o_trace s' = t ++ o_trace s) /\
  CR (w_cur (o_w s)) (w_cur (o_w s')) /\ w_procs (o_w s') = w_procs (o_w s) /\ (o_dead s = true -> o_dead s' = true).
Definition fr {A} (m : M A) : Prop := forall s, fr_step s (snd (m s)).

Lemma fr_refl s : fr_step s s.
Proof.
  split; [exists []; now rewrite app_nil_r|]. split; [exists []; reflexivity|]. split; [apply CR_refl|]. split; auto.
Qed.

Lemma fr_trans s1 s2 s3 : fr_step s1 s2 -> fr_step s2 s3 -> fr_step s1 s3.
Proof.
  intros ((l & A) & (t & B) & C & D & E) ((l' & A') & (t' & B') & C' & D' & E').
  split; [exists (l ++ l'); rewrite A', A; now rewrite app_assoc|].
  split; [exists (t' ++ t); rewrite B', B; now rewrite app_assoc|].
  split; [eapply CR_trans; eauto|]. split; [congruence|auto].
Qed.

(* effects on the world that respect the frame *)
Definition fE (E : world -> world) : Prop :=
  forall w, (exists l, w_log (E w) = w_log w ++ l) /\ CR (w_cur w) (w_cur (E w)) /\ w_procs (E w) = w_procs w.

Lemma fE_id : fE (fun w => w).
Proof. intros w. split; [exists []; now rewrite app_nil_r|]. split; [apply CR_refl|reflexivity]. Qed.

Lemma fE_same (E : world -> world) :
  (forall w, w_log (E w) = w_log w /\ w_cur (E w) = w_cur w /\ w_procs (E w) = w_procs w) -> fE E.
Proof. intros H w. destruct (H w) as (A & B & C). split; [exists []; now rewrite app_nil_r|]. split; [rewrite B; apply CR_refl|exact C]. Qed.

Lemma fr_ret {A} (a : A) : fr (ret a).
Proof. intros s. apply fr_refl. Qed.
Lemma fr_fail {A} e : fr (@fail A e).
Proof. intros s. apply fr_refl. Qed.
Lemma fr_bind {A B} (m : M A) (f : A -> M B) : fr m -> (forall a, fr (f a)) -> fr (bind m f).
Proof.
  intros Hm Hf s. unfold bind. specialize (Hm s). destruct (m s) as [[a|e] s1]; cbn in *; [|exact Hm].
  eapply fr_trans; [exact Hm|apply Hf].
Qed.
Lemma fr_catch {A} (m : M A) : fr m -> fr (catch m).
Proof. intros Hm s. unfold catch. specialize (Hm s). destruct (m s) as [[a|e] s1]; exact Hm. Qed.
Lemma fr_emit t : fr (emit t).
Proof.
  intros s. destruct (emit_spec2 t s) as (_ & E2 & E3 & E4).
  split; [exists []; rewrite E2; now rewrite app_nil_r|].
  split; [rewrite E4; destruct (o_dead s); [exists []|exists [t]]; reflexivity|].
  rewrite E2, E3. split; [apply CR_refl|]. split; auto.
Qed.
Lemma fr_dispatch k ctx : fr (dispatch k ctx).
Proof.
  intros s. destruct (dispatch_spec2 k ctx s) as (d & _ & E2 & E3 & E4 & _).
  split; [exists []; rewrite E2; now rewrite app_nil_r|]. split; [exists []; exact E3|].
  rewrite E2. split; [apply CR_refl|]. split; auto.
Qed.
Lemma fr_get_w : fr get_w.
Proof. intros s. apply fr_refl. Qed.
Lemma fr_disp_ret {A} d (a : A) : fr (disp_ret d a).
Proof. destruct d; cbn; try apply fr_ret; apply fr_fail. Qed.
Lemma fr_put_w (f : world -> world) : fE f -> fr (w <- get_w ;; put_w (f w)).
Proof.
  intros H s. cbn. destruct (H (o_w s)) as (A & B & C).
  split; [exact A|]. split; [exists []; reflexivity|]. split; [exact B|]. split; auto.
Qed.
Lemma fr_ite {A} (b : ost -> bool) (m1 m2 : M A) : fr m1 -> fr m2 -> fr (fun s => if b s then m1 s else m2 s).
Proof. intros H1 H2 s. destruct (b s); [apply H1|apply H2]. Qed.

(* state functions that change the world outside log / cursors / process table *)
Lemma fr_state {A} (f : ost -> res A * ost) :
  (forall s, w_log (o_w (snd (f s))) = w_log (o_w s) /\ w_cur (o_w (snd (f s))) = w_cur (o_w s) /\
             w_procs (o_w (snd (f s))) = w_procs (o_w s) /\ o_trace (snd (f s)) = o_trace s /\ o_dead (snd (f s)) = o_dead s) ->
  fr (f : M A).
Proof.
  intros H s. destruct (H s) as (A1 & A2 & A3 & A4 & A5).
  split; [exists []; rewrite A1; now rewrite app_nil_r|]. split; [exists []; exact A4|].
  rewrite A2, A3, A5. split; [apply CR_refl|]. split; auto.
Qed.
Lemma fr_att_bump code run : fr (att_bump code run).
Proof. apply fr_state. intros s. unfold att_bump. cbn. repeat split. Qed.
Lemma fr_ctr_add inst k : fr (ctr_add inst k).
Proof. apply fr_state. intros s. unfold ctr_add. destruct (c_add _ _). cbn. repeat split. Qed.
Lemma fr_ctr_clear inst k : fr (ctr_clear inst k).
Proof. apply fr_state. intros s. unfold ctr_clear. cbn. repeat split. Qed.
Lemma fr_lease_live : fr lease_live.
Proof. apply fr_state. intros s. unfold lease_live. cbn. repeat split. Qed.

Lemma fr_prim_step {A} k ctx T E (X : disp -> world -> M A) (s : ost) :
  fE E -> exists d s1, fr_step s s1 /\ prim k ctx T E X s = X d (o_w s) s1.
Proof.
  intros HE. destruct (prim_spec2 k ctx T E X s) as (d & s1 & W & Tr & D1 & D2 & D3 & R).
  exists d, s1. split; [|exact R]. destruct (HE (o_w s)) as (A1 & A2 & A3).
  split; [rewrite W; destruct (disp_effect d); [exact A1|exists []; now rewrite app_nil_r]|].
  split; [rewrite Tr; destruct (o_dead s1); [exists []|exists [T d (o_w s)]]; reflexivity|].
  rewrite W. split; [destruct (disp_effect d); [exact A2|apply CR_refl]|].
  split; [destruct (disp_effect d); [exact A3|reflexivity]|exact D1].
Qed.

Lemma fr_prim {A} k ctx T E (X : disp -> world -> M A) : fE E -> (forall d w, fr (X d w)) -> fr (prim k ctx T E X).
Proof.
  intros HE HX s. destruct (fr_prim_step k ctx T E X s HE) as (d & s1 & Hs & R). rewrite R.
  eapply fr_trans; [exact Hs|apply HX].
Qed.

Lemma fr_prim_ret {A} k ctx T E (a : disp -> world -> A) : fE E -> fr (prim k ctx T E (fun d w => disp_ret d (a d w))).
Proof. intros HE. apply fr_prim; [exact HE|]. intros d w. apply fr_disp_ret. Qed.

Lemma fr_p_lookup run : fr (p_lookup run).
Proof. unfold p_lookup. apply fr_prim; [apply fE_id|]. intros d w. apply fr_disp_ret. Qed.
Lemma fr_p_latest fid : fr (p_latest fid).
Proof. unfold p_latest. apply fr_prim; [apply fE_id|]. intros d w. apply fr_disp_ret. Qed.
Lemma fr_p_store r : fr (p_store c r).
Proof. unfold p_store. apply fr_prim; [apply fE_same; intros w; repeat split|]. intros d w. apply fr_disp_ret. Qed.
Lemma fr_p_call k ctx args eff out : fE eff -> fr (p_call k ctx args eff out).
Proof. intros HE. unfold p_call. apply fr_prim; [exact HE|]. intros d w. apply fr_disp_ret. Qed.
Lemma fr_p_list_outbox limit : fr (p_list_outbox limit).
Proof. unfold p_list_outbox. apply fr_prim; [apply fE_id|]. intros d w. apply fr_disp_ret. Qed.
Lemma fr_p_send o : fr (p_send o).
Proof.
  unfold p_send. apply fr_prim; [|intros d w; apply fr_disp_ret].
  intros w. split; [eexists; reflexivity|]. split; [apply CR_refl|reflexivity].
Qed.
Lemma fr_p_del_outbox id : fr (p_del_outbox id).
Proof. unfold p_del_outbox. apply fr_prim; [apply fE_same; intros w; repeat split|]. intros d w. apply fr_disp_ret. Qed.
Lemma fr_p_list_valid st : fr (p_list_valid st).
Proof. unfold p_list_valid. apply fr_prim; [apply fE_id|]. intros d w. apply fr_disp_ret. Qed.
Lemma fr_p_tcreate fid run st ex : fr (p_tcreate fid run st ex).
Proof. unfold p_tcreate. apply fr_prim; [apply fE_same; intros w; repeat split|]. intros d w. apply fr_disp_ret. Qed.
Lemma fr_p_tcomplete id : fr (p_tcomplete id).
Proof. unfold p_tcomplete. apply fr_prim; [apply fE_same; intros w; repeat split|]. intros d w. apply fr_disp_ret. Qed.
Lemma fr_p_tcancel id : fr (p_tcancel id).
Proof. unfold p_tcancel. apply fr_prim; [apply fE_same; intros w; repeat split|]. intros d w. apply fr_disp_ret. Qed.
Lemma fr_m_release u inst : fr (m_release u inst).
Proof. unfold m_release. apply fr_put_w. apply fE_same. intros w. repeat split. Qed.

(* ---------- the handlers: everything except Ack respects the frame with any [CR] ---------- *)
Ltac fr_extra := fail.
Ltac fr_go :=
  repeat first
    [ fr_extra | apply fr_ret | apply fr_fail | apply fr_emit | apply fr_get_w | apply fr_disp_ret
    | apply fr_p_lookup | apply fr_p_latest | apply fr_p_store | apply fr_p_list_outbox | apply fr_p_send
    | apply fr_p_del_outbox | apply fr_p_list_valid | apply fr_p_tcreate | apply fr_p_tcomplete | apply fr_p_tcancel
    | apply fr_m_release | apply fr_att_bump | apply fr_ctr_add | apply fr_ctr_clear | apply fr_lease_live | apply fr_dispatch
    | (apply fr_p_call; apply fE_id)
    | apply fr_catch
    | (apply fr_bind; [|intros])
    | assumption
    | match goal with
      | H : forall _, fr _ |- _ => apply H
      | H : forall _ _, fr _ |- _ => apply H
      | |- fr (match ?x with _ => _ end) => destruct x
      | |- fr (let (_, _) := ?x in _) => destruct x
      end ].

Lemma fr_build_run r : fr (build_run r).
Proof. unfold build_run. fr_go. Qed.
Ltac fr_extra ::= apply fr_build_run.
Lemma fr_ctl_do ctl target reason : fr (ctl_do c ctl target reason).
Proof. unfold ctl_do. fr_go. Qed.
Ltac fr_extra ::= first [apply fr_build_run | apply fr_ctl_do].
Lemma fr_updater cur next run : fr (updater c cur next run).
Proof. unfold updater. fr_go. Qed.
Ltac fr_extra ::= first [apply fr_build_run | apply fr_ctl_do | apply fr_updater].
Lemma fr_invoke u b status view : fr (invoke c u b status view).
Proof. unfold invoke. fr_go; try apply fr_ctl_do; fr_go. Qed.
Ltac fr_extra ::= first [apply fr_build_run | apply fr_ctl_do | apply fr_updater | apply fr_invoke].
Lemma fr_maybe_pause inst n e u ctl : fr (maybe_pause c inst n e u ctl).
Proof. unfold maybe_pause. fr_go; try apply fr_ctl_do; fr_go. Qed.
Ltac fr_extra ::= first [apply fr_build_run | apply fr_ctl_do | apply fr_updater | apply fr_invoke | apply fr_maybe_pause].
Lemma fr_step_handler inst u st fn n e : (forall v, fr (fn v)) -> fr (step_handler c inst u st fn n e).
Proof. intros Hfn. unfold step_handler. fr_go; try apply fr_build_run; fr_go; try apply fr_maybe_pause; try apply fr_updater; fr_go. Qed.
Lemma fr_inserter_fn st tos : forall j view, fr (inserter_fn st tos j view).
Proof. induction tos as [|t tl IH]; intros j view; cbn [inserter_fn]; fr_go. Qed.
Lemma fr_process_timeouts inst u st n t tos : forall j, fr (process_timeouts c inst u st n tos j t).
Proof.
  induction tos as [|tc tl IH]; intros j; cbn [process_timeouts]; fr_go;
    try apply fr_build_run; fr_go; try apply fr_invoke; fr_go; try apply fr_maybe_pause; try apply fr_updater; fr_go.
Qed.
Lemma fr_poll_timers inst u st n l : fr (poll_timers c inst u st n l).
Proof. induction l as [|t tl IH]; cbn [poll_timers]; fr_go. apply fr_process_timeouts. Qed.
Lemma fr_hook_handler st k e : fr (hook_handler st k e).
Proof. unfold hook_handler. fr_go. Qed.
Lemma fr_delete_handler e : fr (delete_handler c e).
Proof. unfold delete_handler. fr_go. Qed.
Lemma fr_retry_handler e : fr (retry_handler c e).
Proof. unfold retry_handler. fr_go; try apply fr_ctl_do; fr_go. Qed.
Lemma fr_unit_handler inst u e : fr (unit_handler c inst u e).
Proof.
  unfold unit_handler. destruct u; try apply fr_fail.
  - destruct (find_step c s); [|apply fr_fail]. apply fr_step_handler. intros v. apply fr_invoke.
  - apply fr_step_handler. intros v. apply fr_inserter_fn.
  - apply fr_hook_handler.
  - apply fr_delete_handler.
  - apply fr_retry_handler.
  - unfold conn_handler. fr_go.
Qed.
Lemma fr_relay_entries l : fr (relay_entries l).
Proof. induction l as [|o tl IH]; cbn [relay_entries]; fr_go. Qed.
Lemma fr_exit_err inst u close e : fr (exit_err c inst u close e).
Proof.
  unfold exit_err. apply fr_bind; [destruct close; fr_go|]. intros _. destruct (e =? ECancel); [fr_go|].
  apply fr_bind; [apply fr_get_w|]. intros w. apply fr_ite; [|apply fr_ite]; fr_go.
Qed.
Lemma fr_guarded inst u close (m : M pstate) : fr m -> fr (guarded c inst u close m).
Proof.
  intros Hm s. unfold guarded. specialize (Hm s). destruct (m s) as [[ps|e] s']; cbn [snd] in *; [exact Hm|].
  eapply fr_trans; [exact Hm|apply fr_exit_err].
Qed.
Lemma fr_get_put {A} (F : world -> world) (K : world -> M A) :
  fE F -> (forall w, fr (K w)) -> fr (w <- get_w ;; put_w (F w) ;;; K w).
Proof.
  intros HF HK s. unfold bind at 1 2, get_w, put_w. cbn [fst snd].
  eapply fr_trans; [|apply HK]. destruct (HF (o_w s)) as (A1 & A2 & A3).
  split; [exact A1|]. split; [exists []; reflexivity|]. split; [exact A2|]. split; auto.
Qed.
Lemma fr_api_trigger fid start seed : fr (api_trigger c fid start seed).
Proof.
  unfold api_trigger. destruct (if start =? 0 then _ else _); [|apply fr_fail].
  destruct (negb _); [apply fr_fail|]. apply fr_bind; [apply fr_p_latest|]. intros lastr.
  destruct (match lastr with Some _ => _ | None => _ end); [apply fr_fail|].
  apply (fr_get_put (fun w => set_nrun w (w_nrun w + 1)%N)); [apply fE_same; intros w; repeat split|].
  intros w. apply fr_p_store.
Qed.
Ltac fr_extra ::= first [apply fr_build_run | apply fr_ctl_do | apply fr_updater | apply fr_invoke | apply fr_maybe_pause | apply fr_api_trigger].
Lemma fr_api_callbacks fid status cbs : forall j, fr (api_callbacks c fid status cbs j).
Proof.
  induction cbs as [|cb tl IH]; intros j; cbn [api_callbacks]; fr_go;
    try apply fr_build_run; fr_go; try apply fr_invoke; fr_go; try apply fr_updater; fr_go.
Qed.
Lemma fr_api_ctl run o : fr (api_ctl c run o).
Proof. unfold api_ctl. fr_go; try apply fr_ctl_do; fr_go. Qed.
Lemma fr_sched_after_wait inst sc : fr (sched_after_wait c inst sc).
Proof. unfold sched_after_wait. fr_go; try apply fr_api_trigger; fr_go. Qed.
Ltac fr_extra ::= first [apply fr_build_run | apply fr_ctl_do | apply fr_updater | apply fr_invoke | apply fr_maybe_pause | apply fr_api_trigger | apply fr_sched_after_wait].
Lemma fr_sched_body inst sc : fr (sched_body c inst sc).
Proof. unfold sched_body. fr_go; try apply fr_sched_after_wait. Qed.
Lemma fr_poll_once inst u st : fr (poll_once c inst u st).
Proof. unfold poll_once. fr_go. apply fr_poll_timers. Qed.

(* Ack is the one primitive that moves a committed position *)
Lemma fr_p_ack u idx e : (forall w n, CR (w_cur w) (w_cur (put_cursor w u n))) -> fr (p_ack u idx e).
Proof.
  intros H. unfold p_ack. apply fr_prim; [|intros d w; apply fr_disp_ret].
  intros w. split; [exists []; now rewrite app_nil_r|]. split; [apply H|reflexivity].
Qed.

Lemma fr_m_acquire u inst : fr (m_acquire u inst).
Proof. unfold m_acquire. apply fr_put_w. apply fE_same. intros w. repeat split. Qed.
Ltac fr_extra ::= first [apply fr_build_run | apply fr_ctl_do | apply fr_updater | apply fr_invoke | apply fr_maybe_pause | apply fr_api_trigger
                        | apply fr_sched_after_wait | apply fr_m_acquire | apply fr_relay_entries | apply fr_poll_once | apply fr_sched_body
                        | apply fr_exit_err | (apply fr_guarded) | apply fr_poll_timers ].

Definition acks (u : eunit) : bool := match u with EPoller _ | EOutbox | ESched _ => false | _ => true end.

(* the operations of a process that cannot reach an Ack *)
Lemma fr_proc_op_noack inst u ps :
  match ps with PLag _ _ _ => False | PRun => acks u = false | _ => True end -> fr (proc_op c inst u ps).
Proof.
  intros Hps. unfold proc_op. destruct ps as [| |idx e deadline|deadline|deadline]; [| |destruct Hps| |].
  - apply fr_bind; [apply fr_get_w|]. intros w. destruct (role_holder w u); [fr_go|].
    apply fr_bind; [apply fr_dispatch|]. intros d.
    assert (Hgo : fr (emit (TCall KAW [] ROk []) ;;; m_acquire u inst ;;;
               match u with
               | EOutbox => guarded c inst u false (l <- p_list_outbox (ec_limit c) ;; relay_entries l ;;; m_release u inst ;;; ret PIdle)
               | EPoller s0 => guarded c inst u false (poll_once c inst u s0)
               | ESched fid => match find_sched c fid with
                               | Some sc => guarded c inst u false (sched_body c inst sc)
                               | None => m_release u inst ;;; ret PIdle
                               end
               | _ => guarded c inst u false (p_call KNR true [] (fun w0 => w0) (fun _ => []) ;;; ret PRun)
               end)).
    { apply fr_bind; [apply fr_emit|]. intros _. apply fr_bind; [apply fr_m_acquire|]. intros _.
      destruct u; try (apply fr_guarded; fr_go). destruct (find_sched c fid); [apply fr_guarded, fr_sched_body|fr_go]. }
    destruct d; try exact Hgo; fr_go.
  - destruct u; cbn in Hps; try discriminate; fr_go.
  - apply fr_bind; [apply fr_get_w|]. intros w. apply fr_bind; [apply fr_lease_live|]. intros live.
    destruct (negb live); [fr_go|]. destruct (deadline >? w_now w); fr_go.
  - apply fr_bind; [apply fr_get_w|]. intros w. apply fr_bind; [apply fr_lease_live|]. intros live.
    destruct (negb live); [fr_go; apply fr_fail|]. destruct (deadline >? w_now w); [fr_go|].
    apply fr_bind; [apply fr_emit|]. intros _. destruct u; try apply fr_ret.
    destruct (find_sched c fid); [apply fr_guarded, fr_sched_after_wait|apply fr_ret].
Qed.

(* with Ack *)
Hypothesis Hack : forall u w n, CR (w_cur w) (w_cur (put_cursor w u n)).

Lemma fr_after_lag inst u idx e : fr (after_lag c inst u idx e).
Proof.
  unfold after_lag. apply fr_bind; [|intros; apply fr_ret].
  destruct (unit_filter u e); [apply fr_p_ack, Hack|]. apply fr_bind; [apply fr_unit_handler|]. intros _. apply fr_p_ack, Hack.
Qed.

Lemma fr_consume_iter inst u : fr (consume_iter c inst u).
Proof.
  unfold consume_iter. apply fr_bind; [apply fr_get_w|]. intros w. apply fr_bind; [apply fr_lease_live|]. intros live.
  destruct (next_event _ _ _ _) as [[idx e]|].
  - apply fr_bind; [apply fr_dispatch|]. intros d.
    assert (Hok : fr (emit (TRecv e) ;;;
                      (let lag := unit_lag c u in
                       if (lag >? 0) && (e_created e + lag >? w_now w)
                       then emit (TCall KTW [e_created e + lag] RBlocked []) ;;; ret (PLag idx e (e_created e + lag))
                       else after_lag c inst u idx e))).
    { apply fr_bind; [apply fr_emit|]. intros _. cbv zeta. destruct (_ && _); [fr_go|apply fr_after_lag]. }
    destruct d; try exact Hok; fr_go.
  - destruct live; fr_go.
Qed.

Lemma fr_proc_op inst u ps : fr (proc_op c inst u ps).
Proof.
  destruct ps as [| |idx e deadline|deadline|deadline]; try (apply fr_proc_op_noack; exact I).
  - destruct (acks u) eqn:Ea; [|apply fr_proc_op_noack; exact Ea].
    unfold proc_op. destruct u; cbn in Ea; try discriminate; apply fr_guarded, fr_consume_iter.
  - unfold proc_op. apply fr_bind; [apply fr_get_w|]. intros w. apply fr_bind; [apply fr_lease_live|]. intros live.
    destruct (negb live); [fr_go; apply fr_fail|]. destruct (deadline >? w_now w); [fr_go|].
    apply fr_bind; [apply fr_emit|]. intros _. apply fr_guarded, fr_after_lag.
Qed.

End Frame.
