(* Emits.v — which tokens a computation can add to the trace, for EVERY start state: [em P m] says every run of [m] extends the
   trace by tokens that all satisfy [P]. Compositional; used for "this handler never emits a token of kind K" facts. *)
From WF Require Import model.Base model.RunState model.Routing model.Graph model.Counter model.Shard model.EngineBase model.Engine
  proofs.Hoare proofs.Frame.

Section Em.
Variable P : tok -> Prop.

Definition em_step (s s' : ost) : Prop := exists t, o_trace s' = t ++ o_trace s /\ Forall P t.
Definition em {A} (m : M A) : Prop := forall s, em_step s (snd (m s)).

Lemma em_refl s : em_step s s.
Proof. exists []. split; [reflexivity|constructor]. Qed.
Lemma em_trans s1 s2 s3 : em_step s1 s2 -> em_step s2 s3 -> em_step s1 s3.
Proof. intros (t & E & F) (t' & E' & F'). exists (t' ++ t). split; [rewrite E', E; now rewrite app_assoc|apply Forall_app; auto]. Qed.

Lemma em_ret {A} (a : A) : em (ret a). Proof. intros s. apply em_refl. Qed.
Lemma em_fail {A} e : em (@fail A e). Proof. intros s. apply em_refl. Qed.
Lemma em_bind {A B} (m : M A) (f : A -> M B) : em m -> (forall a, em (f a)) -> em (bind m f).
Proof.
  intros Hm Hf s. unfold bind. specialize (Hm s). destruct (m s) as [[a|e] s1]; cbn in *; [|exact Hm].
  eapply em_trans; [exact Hm|apply Hf].
Qed.
Lemma em_catch {A} (m : M A) : em m -> em (catch m).
Proof. intros Hm s. unfold catch. specialize (Hm s). destruct (m s) as [[a|e] s1]; exact Hm. Qed.
Lemma em_emit t : P t -> em (emit t).
Proof.
  intros Ht s. destruct (emit_spec2 t s) as (_ & _ & _ & E4). unfold em_step. rewrite E4.
  destruct (o_dead s); [exists []; split; [reflexivity|constructor]|exists [t]; split; [reflexivity|repeat constructor; exact Ht]].
Qed.
Lemma em_state {A} (f : ost -> res A * ost) : (forall s, o_trace (snd (f s)) = o_trace s) -> em (f : M A).
Proof. intros H s. exists []. split; [apply H|constructor]. Qed.
Lemma em_get_w : em get_w. Proof. intros s. apply em_refl. Qed.
Lemma em_disp_ret {A} d (a : A) : em (disp_ret d a).
Proof. destruct d; cbn; try apply em_ret; apply em_fail. Qed.
Lemma em_att_bump code run : em (att_bump code run). Proof. apply em_state. reflexivity. Qed.
Lemma em_ctr_add inst k : em (ctr_add inst k).
Proof. apply em_state. intros s. unfold ctr_add. destruct (c_add _ _). reflexivity. Qed.
Lemma em_ctr_clear inst k : em (ctr_clear inst k). Proof. apply em_state. reflexivity. Qed.

Lemma em_prim {A} k ctx T E (X : disp -> world -> M A) : (forall d w, P (T d w)) -> (forall d w, em (X d w)) -> em (prim k ctx T E X).
Proof.
  intros HT HX s. destruct (prim_spec2 k ctx T E X s) as (d & s1 & _ & Tr & _ & _ & _ & R). rewrite R.
  eapply em_trans; [|apply HX]. unfold em_step. rewrite Tr.
  destruct (o_dead s1); [exists []; split; [reflexivity|constructor]|exists [T d (o_w s)]; split; [reflexivity|repeat constructor; apply HT]].
Qed.

Lemma em_prim_ret {A} k ctx T E (a : disp -> world -> A) : (forall d w, P (T d w)) -> em (prim k ctx T E (fun d w => disp_ret d (a d w))).
Proof. intros HT. apply em_prim; [exact HT|]. intros d w. apply em_disp_ret. Qed.

End Em.
