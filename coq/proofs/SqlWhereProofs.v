(* SqlWhereProofs.v — the statement List builds, read as SQL, selects what the reference List returns. *)
From WF Require Import model.Base model.Routing model.Stores model.SqlWhere.
Open Scope list_scope.

Section EvFacts.
  Variable val : wfield -> Z.
  Variable nn : wfield -> bool.
  Notation ev := (ev val nn).

  Lemma ev_S0 k ts ps : ev (S k) 0 ts ps =
    match ev k 1 ts ps with
    | Some (b, KOr :: r, ps') => match ev k 0 r ps' with Some (b', r', ps'') => Some (b || b', r', ps'') | None => None end
    | x => x
    end.
  Proof. reflexivity. Qed.
  Lemma ev_S1 k ts ps : ev (S k) 1 ts ps =
    match ev k 2 ts ps with
    | Some (b, KAnd :: r, ps') => match ev k 1 r ps' with Some (b', r', ps'') => Some (b && b', r', ps'') | None => None end
    | x => x
    end.
  Proof. reflexivity. Qed.
  Lemma ev_S2_lp k r ps : ev (S k) 2 (KLp :: r) ps =
    match ev k 0 r ps with Some (b, KRp :: r', ps') => Some (b, r', ps') | _ => None end.
  Proof. reflexivity. Qed.

  Lemma or_chain_SS f n : or_chain f (S (S n)) = KEq f :: KOr :: or_chain f (S n).
  Proof. reflexivity. Qed.

  Lemma ev1_eq k f r v ps : (2 <= k)%nat -> match r with KAnd :: _ => False | _ => True end ->
    ev k 1 (KEq f :: r) (v :: ps) = Some (val f =? v, r, ps).
  Proof.
    intros Hk Hr. destruct k as [|[|k]]; try lia. rewrite ev_S1. cbn [SqlWhere.ev].
    destruct r as [|[] r']; try reflexivity. contradiction.
  Qed.

  Lemma ev_chain f : forall vals k r ps, vals <> [] -> (length vals + 2 <= k)%nat ->
    ev k 0 (or_chain f (length vals) ++ KRp :: r) (vals ++ ps) = Some (mem_Z (val f) vals, KRp :: r, ps).
  Proof.
    induction vals as [|v vs IH]; [congruence|]. intros k r ps _ Hk.
    destruct vs as [|v' vs'].
    - cbn [length or_chain app]. cbn [length] in Hk. destruct k as [|k]; [lia|]. rewrite ev_S0.
      rewrite ev1_eq by (try lia; exact I). unfold mem_Z. cbn [existsb]. now rewrite orb_false_r.
    - change (length (v :: v' :: vs')) with (S (S (length vs'))). rewrite or_chain_SS.
      change ((KEq f :: KOr :: or_chain f (S (length vs'))) ++ KRp :: r) with (KEq f :: KOr :: (or_chain f (S (length vs')) ++ KRp :: r)).
      change ((v :: v' :: vs') ++ ps) with (v :: ((v' :: vs') ++ ps)).
      cbn [length] in Hk. destruct k as [|k]; [lia|]. rewrite ev_S0.
      rewrite ev1_eq by (try lia; exact I).
      change (S (length vs')) with (length (v' :: vs')).
      specialize (IH k r ps). rewrite IH; [|discriminate|cbn [length]; lia].
      reflexivity.
  Qed.

  Lemma ev_group c k r ps : snd c <> [] -> (length (snd c) + 3 <= k)%nat ->
    ev k 2 (wb_group c ++ r) (snd c ++ ps) = Some (mem_Z (val (fst c)) (snd c), r, ps).
  Proof.
    intros Hne Hk. unfold wb_group. cbn [app]. rewrite <- app_assoc. cbn [app].
    destruct k as [|k]; [lia|]. rewrite ev_S2_lp. rewrite ev_chain by (try assumption; lia). reflexivity.
  Qed.

  Lemma wb_join_cons g t : t <> [] -> wb_join (g :: t) = g ++ KAnd :: wb_join t.
  Proof. destruct t; [congruence|reflexivity]. Qed.

  Definition tb (cs : list (wfield * list Z)) : nat := fold_right (fun c a => length (snd c) + 4 + a)%nat 2%nat cs.

  Lemma ev_terms : forall cs k ps, Forall (fun c => snd c <> []) cs -> (tb cs <= k)%nat ->
    ev k 1 (wb_join (map wb_group cs ++ [[KNotNull FRun]])) (flat_map snd cs ++ ps)
    = Some (forallb (fun c => mem_Z (val (fst c)) (snd c)) cs && nn FRun, [], ps).
  Proof.
    induction cs as [|c cs IH]; intros k ps Hne Hk.
    - cbn in Hk. destruct k as [|[|k]]; try lia. reflexivity.
    - cbn [map app flat_map]. rewrite wb_join_cons by (destruct (map wb_group cs); discriminate).
      cbn [tb fold_right] in Hk. fold (tb cs) in Hk. destruct k as [|k]; [lia|]. rewrite ev_S1.
      rewrite <- app_assoc. inversion Hne as [|? ? Hc Hcs]; subst.
      rewrite ev_group by (try assumption; lia).
      rewrite IH by (try assumption; lia). cbn [forallb]. now rewrite andb_assoc.
  Qed.

  Lemma or_chain_len f n : (n <= length (or_chain f n))%nat.
  Proof.
    induction n as [|n IH]; [cbn; lia|]. destruct n as [|n]; [cbn; lia|]. rewrite or_chain_SS. cbn [length]. lia.
  Qed.

  Lemma tb_bound : forall cs, (tb cs <= 2 * length (wb_join (map wb_group cs ++ [[KNotNull FRun]])) + 3)%nat.
  Proof.
    induction cs as [|c cs IH]; [cbn; lia|].
    cbn [map app]. rewrite wb_join_cons by (destruct (map wb_group cs); discriminate).
    set (L := length (wb_join (map wb_group cs ++ [[KNotNull FRun]]))) in *.
    rewrite app_length. cbn [length]. fold L. unfold wb_group. cbn [length]. rewrite app_length. cbn [length].
    change (tb (c :: cs)) with (length (snd c) + 4 + tb cs)%nat.
    pose proof (or_chain_len (fst c) (length (snd c))). lia.
  Qed.

  Lemma sql_cond_list cs ps : Forall (fun c => snd c <> []) cs ->
    sql_cond val nn (wb_join (map wb_group cs ++ [[KNotNull FRun]])) (flat_map snd cs ++ ps)
    = Some (forallb (fun c => mem_Z (val (fst c)) (snd c)) cs && nn FRun, ps).
  Proof.
    intros Hne. unfold sql_cond.
    set (ts := wb_join _). pose proof (tb_bound cs) as Hb. fold ts in Hb.
    replace (2 * length ts + 4)%nat with (S (2 * length ts + 3)) by lia. rewrite ev_S0.
    unfold ts. rewrite ev_terms by (try assumption; exact Hb). reflexivity.
  Qed.
End EvFacts.

Lemma Z_of_N_eqb a b : (Z.of_N a =? Z.of_N b) = (a =? b)%N.
Proof.
  destruct (N.eqb_spec a b) as [->|Hn]; [apply Z.eqb_refl|]. apply Z.eqb_neq. intros H. now apply N2Z.inj in H.
Qed.

Lemma mem_Z_of_N x l : mem_Z (Z.of_N x) (map Z.of_N l) = mem_N x l.
Proof. unfold mem_Z, mem_N. induction l as [|a l IH]; [reflexivity|]. cbn. now rewrite Z_of_N_eqb, IH. Qed.

Definition sfilter_ok (f : sfilter) : Prop :=
  match f_fid f with Some [] => False | _ => True end /\
  match f_status f with Some [] => False | _ => True end /\
  match f_state f with Some [] => False | _ => True end.

Lemma list_conds_nonempty wf f : sfilter_ok f -> Forall (fun c => snd c <> []) (list_conds wf f).
Proof.
  intros (H1 & H2 & H3). unfold list_conds.
  apply Forall_app; split; [|apply Forall_app; split; [|apply Forall_app; split]].
  - destruct (wf =? 0)%N; repeat constructor. discriminate.
  - destruct (f_fid f) as [[|a l]|]; [contradiction| |]; repeat constructor. discriminate.
  - destruct (f_status f) as [[|a l]|]; [contradiction| |]; repeat constructor. discriminate.
  - destruct (f_state f) as [[|a l]|]; [contradiction| |]; repeat constructor. discriminate.
Qed.

Lemma list_conds_matches wf f r :
  forallb (fun c => mem_Z (row_val r (fst c)) (snd c)) (list_conds wf f) = smatches wf f r.
Proof.
  unfold list_conds, smatches. rewrite !forallb_app.
  assert (H0 : forallb (fun c => mem_Z (row_val r (fst c)) (snd c)) (if (wf =? 0)%N then [] else [(FWf, [Z.of_N wf])])
               = ((wf =? 0)%N || N.eqb wf (r_wf r))).
  { destruct (wf =? 0)%N; [reflexivity|]. cbn. rewrite Z_of_N_eqb, N.eqb_sym. now rewrite orb_false_r, andb_true_r. }
  rewrite H0. clear H0.
  assert (H1 : forallb (fun c => mem_Z (row_val r (fst c)) (snd c)) (match f_fid f with None => [] | Some l => [(FFid, map Z.of_N l)] end)
               = opt_match mem_N (r_fid r) (f_fid f)).
  { destruct (f_fid f) as [l|]; [|reflexivity]. cbn [forallb fst snd row_val opt_match]. now rewrite mem_Z_of_N, andb_true_r. }
  rewrite H1. clear H1.
  assert (H2 : forallb (fun c => mem_Z (row_val r (fst c)) (snd c)) (match f_status f with None => [] | Some l => [(FStatus, l)] end)
               = opt_match mem_Z (r_status r) (f_status f)).
  { destruct (f_status f) as [l|]; [|reflexivity]. cbn [forallb fst snd row_val opt_match]. now rewrite andb_true_r. }
  rewrite H2. clear H2.
  assert (H3 : forallb (fun c => mem_Z (row_val r (fst c)) (snd c)) (match f_state f with None => [] | Some l => [(FState, l)] end)
               = opt_match mem_Z (rs_code (r_state r)) (f_state f)).
  { destruct (f_state f) as [l|]; [|reflexivity]. cbn [forallb fst snd row_val opt_match]. now rewrite andb_true_r. }
  rewrite H3. now rewrite !andb_assoc.
Qed.

Lemma sql_filter_list wf off lim desc f rows : sfilter_ok f ->
  let q := list_stmt wf off lim desc f in
  let lim' := if lim =? 0 then default_list_limit else lim in
  sql_filter q rows = Some (filter (smatches wf f) rows,
                            (if 0 <? lim' then [lim'] else []) ++ (if 0 <? off then [off] else [])).
Proof.
  intros Hok q lim'. pose proof (list_conds_nonempty wf f Hok) as Hne.
  induction rows as [|r rows IH].
  - cbn [sql_filter]. unfold q, list_stmt. cbn [q_cond q_args]. fold lim'. rewrite sql_cond_list by assumption. reflexivity.
  - cbn [sql_filter]. rewrite IH. unfold q, list_stmt. cbn [q_cond q_args]. fold lim'. rewrite sql_cond_list by assumption.
    rewrite list_conds_matches, andb_true_r. cbn [filter]. reflexivity.
Qed.

(* THE statement List builds, read as SQL over the rows in creation order, selects exactly what the reference List returns *)
Theorem list_stmt_meaning wf off lim desc f rows : sfilter_ok f -> 0 <= off -> 0 <= lim ->
  sql_select (list_stmt wf off lim desc f) rows =
  Some (page off lim (let m := filter (smatches wf f) rows in if desc then rev m else m)).
Proof.
  intros Hok Hoff Hlim. unfold sql_select. rewrite (sql_filter_list wf off lim desc f rows Hok).
  unfold list_stmt. cbn [q_tail]. unfold page.
  set (lim' := if lim =? 0 then default_list_limit else lim).
  assert (Hl : 0 <? lim' = true).
  { unfold lim', default_list_limit. destruct (Z.eqb_spec lim 0); [reflexivity|]. apply Z.ltb_lt. lia. }
  rewrite Hl. cbn zeta.
  destruct (0 <? off) eqn:Eo; cbn [app sql_tail].
  - reflexivity.
  - assert (off = 0) by (apply Z.ltb_ge in Eo; lia). subst off. reflexivity.
Qed.

(* every placeholder of the condition and tail is bound: the argument list has exactly the statement's '?' count *)
Definition stmt_placeholders (q : sqlstmt) : nat :=
  length (filter (fun t => match t with KEq _ => true | _ => false end) (q_cond q)) +
  length (filter (fun t => match t with KLimit | KOffset => true | _ => false end) (q_tail q)).

(* without the parentheses the same conditions mean something else: a row of another workflow is selected *)
Definition flat_stmt_cond (cs : list (wfield * list Z)) : list wtok := wb_join (map wb_group_flat cs ++ [[KNotNull FRun]]).
Lemma unparenthesised_differs :
  let cs := [(FWf, [1]); (FStatus, [1; 2])] in
  let val := fun f => match f with FWf => 2 | FStatus => 1 | _ => 0 end in
  sql_cond val (fun _ => true) (flat_stmt_cond cs) (flat_map snd cs) = Some (false, []) /\
  sql_cond val (fun _ => true) (wb_join (map wb_group cs ++ [[KNotNull FRun]])) (flat_map snd cs) = Some (false, []) /\
  let val2 := fun f => match f with FWf => 2 | FStatus => 2 | _ => 0 end in
  sql_cond val2 (fun _ => true) (flat_stmt_cond cs) (flat_map snd cs) = Some (true, []) /\
  sql_cond val2 (fun _ => true) (wb_join (map wb_group cs ++ [[KNotNull FRun]])) (flat_map snd cs) = Some (false, []).
Proof. vm_compute. repeat split. Qed.
