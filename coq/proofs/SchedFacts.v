(* SchedFacts.v — "passes the configured initial value to the run it creates": whatever state the scheduling process of a foreign ID
   runs from (world, fault plan, lease, crash flag), every Store it records is the first write of a run of THAT foreign ID holding
   THE CONFIGURED initial value: Initiated, version 1, at the default starting status. *)
From WF Require Import model.Base model.RunState model.Routing model.Graph model.Counter model.Shard model.EngineBase model.Engine
  proofs.Hoare proofs.Frame proofs.Emits.
Open Scope list_scope.

Section S.
Variable c : econfig.
Variable sc : schedcfg.

Definition sched_store (t : tok) : Prop :=
  match t with
  | TStore _ r _ => r_fid r = sd_fid sc /\ r_obj r = OVal (sd_seed sc) [] /\ r_ver r = 1 /\ r_state r = RSInitiated /\
                    default_start (ec_graph c) = Some (r_status r)
  | _ => True
  end.
Notation es := (em sched_store).
Ltac tk := intros; exact I.

Lemma es_trigger : es (api_trigger c (sd_fid sc) 0 (sd_seed sc)).
Proof.
  unfold api_trigger. cbn [Z.eqb]. destruct (default_start (ec_graph c)) as [st0|] eqn:Ed; [|apply em_fail].
  destruct (negb _); [apply em_fail|]. apply em_bind; [unfold p_latest; apply em_prim_ret; tk|]. intros lastr.
  destruct (match lastr with Some _ => _ | None => _ end); [apply em_fail|].
  apply em_bind; [apply em_get_w|]. intros w. apply em_bind; [apply em_state; reflexivity|]. intros _.
  unfold p_store. apply em_prim_ret. intros d w'. cbn. unfold stamp. destruct (ec_stamp c); cbn; auto.
Qed.

Lemma es_after_wait inst : es (sched_after_wait c inst sc).
Proof.
  unfold sched_after_wait. apply em_bind.
  { destruct (sd_filter sc =? 0); [apply em_ret|]. apply em_bind; [apply em_att_bump|]. intros n. apply em_bind; [apply em_get_w|]. intros w.
    apply em_bind; [apply em_emit; exact I|]. intros _. apply em_ret. }
  intros ok. apply em_bind.
  { destruct ok; [|apply em_ret]. apply em_bind; [apply em_catch, es_trigger|]. intros [|e]; [apply em_ret|]. destruct (e =? 3); [apply em_ret|apply em_fail]. }
  intros _. apply em_bind; [apply em_state; reflexivity|]. intros _. apply em_ret.
Qed.

Theorem es_body inst : es (sched_body c inst sc).
Proof.
  unfold sched_body. apply em_bind; [unfold p_latest; apply em_prim_ret; tk|]. intros lat. apply em_bind; [apply em_get_w|]. intros w.
  match goal with |- em _ (if ?b then _ else _) => destruct b end.
  - apply em_bind; [apply em_emit; exact I|]. intros _. apply em_ret.
  - apply em_bind; [apply em_emit; exact I|]. intros _. apply es_after_wait.
Qed.

End S.
