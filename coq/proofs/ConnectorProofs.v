From WF Require Import model.Base model.Connector model.Shard proofs.ShardProofs.
From Coq Require Import Lia ZArith NArith.

(* the event ID derived from a connector ID is a 64-bit signed integer — about half of them negative *)
Lemma conn_event_id_range bs : (- 9223372036854775808 <= conn_event_id bs < 9223372036854775808)%Z.
Proof.
  unfold conn_event_id, to_int64. set (h := fnv1_64 bs).
  assert (Hh : (h < two64)%N) by (unfold h, fnv1_64; apply N.mod_lt; discriminate).
  destruct (N.ltb_spec h two63) as [H|H]; unfold two63, two64 in *; lia.
Qed.

Section Codec.
Variable D : Type.
Variable enc : cevent -> D.
Variable dec : D -> option cevent.
Hypothesis dec_enc : forall e, dec (enc e) = Some e.    (* the assumption about encoding/json, exercised by the harness *)

(* the connector function receives ID, foreign ID, type, headers and timestamp intact *)
Lemma connector_round_trip e : event_to_conn D dec (conn_to_event D enc e) = Some e.
Proof. unfold event_to_conn, conn_to_event. cbn. apply dec_enc. Qed.

Lemma connector_event_fields e :
  g_fid (conn_to_event D enc e) = ce_fid e /\ g_created (conn_to_event D enc e) = ce_created e /\
  g_id (conn_to_event D enc e) = conn_event_id (ce_id e).
Proof. repeat split. Qed.
End Codec.
