(* StepStatus.v — a step function is invoked only for a run persisted at that step's status.
   step.go never compares the record's status with the consumer's: it relies on the version. This file shows that this is enough.
   [lprov]: every invocation token of a step function of status s names an event of the stream log, of the topic of status s, whose
   run and version are those of the record handed to the function — from EVERY state in which the event a process handles is an
   event of its topic in the log (true of every reachable state: [wi_lag], [next_event]).  With "every event announces a committed
   write" ([wi_logh]) and "the version identifies the write" (HistVersions.v) the record handed over is the very write the event
   announced, and that write was routed by its status: [step_invoked_at_its_status]. *)
From WF Require Import model.Base model.RunState model.Routing model.Graph model.Counter model.Shard model.EngineBase model.Engine
  model.Monitors proofs.Hoare proofs.EngineInv proofs.EngineTokens proofs.TokenFacts proofs.EngineProps proofs.Frame proofs.WaitFrame
  proofs.Delivery proofs.HistVersions.
Open Scope list_scope.

Definition lprov (log : list event) (t : tok) : Prop :=
  match t with
  | TUser (UFStep s) view _ _ _ => exists e, In e log /\ e_topic e = TStatus s /\ e_run e = r_run view /\ e_ver e = r_ver view
  | _ => True
  end.
Lemma lprov_mono log l t : lprov log t -> lprov (log ++ l) t.
Proof.
  destruct t as [| | | |u v p n pl| | | | | | |]; cbn; auto. destruct u; auto.
  intros (e & He & R). exists e. split; [apply in_or_app; now left|exact R].
Qed.
Definition plain_tok (t : tok) : Prop := match t with TUser (UFStep _) _ _ _ _ => False | _ => True end.
Lemma lprov_plain log t : plain_tok t -> lprov log t.
Proof. destruct t as [| | | |u v p n pl| | | | | | |]; cbn; auto. destruct u; auto. intros []. Qed.

Definition hl_step (s s' : ost) : Prop :=
  (exists l, w_log (o_w s') = w_log (o_w s) ++ l) /\ exists t, o_trace s' = t ++ o_trace s /\ Forall (lprov (w_log (o_w s'))) t.
Lemma hl_refl s : hl_step s s.
Proof. split; [exists []; now rewrite app_nil_r|]. exists []. split; [reflexivity|constructor]. Qed.
Lemma hl_trans s1 s2 s3 : hl_step s1 s2 -> hl_step s2 s3 -> hl_step s1 s3.
Proof.
  intros ((l & A) & t & E & F) ((l' & A') & t' & E' & F'). split; [exists (l ++ l'); rewrite A', A; now rewrite app_assoc|].
  exists (t' ++ t). split; [rewrite E', E; now rewrite app_assoc|]. apply Forall_app. split; [exact F'|].
  rewrite A'. eapply Forall_impl; [|exact F]. intros x. apply lprov_mono.
Qed.
Definition hl {A} (m : M A) : Prop := forall s, hl_step s (snd (m s)).
Definition hl_ret {A} (a : A) : hl (ret a) := rr_ret hl_step hl_refl a.
Definition hl_fail {A} e : hl (@fail A e) := rr_fail hl_step hl_refl e.
Definition hl_bind {A B} (m : M A) (f : A -> M B) : hl m -> (forall a, hl (f a)) -> hl (bind m f) := rr_bind hl_step hl_trans m f.
Definition hl_catch {A} (m : M A) : hl m -> hl (catch m) := rr_catch hl_step m.
Definition hl_get_w : hl get_w := rr_get_w hl_step hl_refl.
Definition hl_disp_ret {A} d (a : A) : hl (disp_ret d a) := rr_disp_ret hl_step hl_refl d a.
Definition hl_ite {A} (b : ost -> bool) (m1 m2 : M A) : hl m1 -> hl m2 -> hl (fun s => if b s then m1 s else m2 s) := rr_ite hl_step b m1 m2.

Lemma hl_same s s' : o_trace s' = o_trace s -> w_log (o_w s') = w_log (o_w s) -> hl_step s s'.
Proof. intros E1 E2. split; [exists []; rewrite E2; now rewrite app_nil_r|]. exists []. split; [exact E1|constructor]. Qed.
Lemma hl_state {A} (f : ost -> res A * ost) :
  (forall s, o_trace (snd (f s)) = o_trace s /\ w_log (o_w (snd (f s))) = w_log (o_w s)) -> hl (f : M A).
Proof. intros H s. destruct (H s). apply hl_same; assumption. Qed.
Lemma hl_emit_at s t : lprov (w_log (o_w s)) t -> hl_step s (snd (emit t s)).
Proof.
  intros Ht. destruct (emit_spec2 t s) as (_ & E2 & E3 & E4). destruct (o_dead s) eqn:D.
  - apply hl_same; [exact E4|now rewrite E2].
  - split; [exists []; rewrite E2; now rewrite app_nil_r|]. exists [t]. split; [exact E4|]. rewrite E2. repeat constructor. exact Ht.
Qed.
Lemma hl_emit t : plain_tok t -> hl (emit t).
Proof. intros Ht s. apply hl_emit_at, lprov_plain, Ht. Qed.
Lemma hl_dispatch k ctx : hl (dispatch k ctx).
Proof. intros s. destruct (dispatch_spec2 k ctx s) as (d & _ & E2 & E3 & _). apply hl_same; [exact E3|now rewrite E2]. Qed.
Lemma hl_get_put (f : world -> world) : (forall w, w_log (f w) = w_log w) -> hl (w <- get_w ;; put_w (f w)).
Proof. intros H. apply hl_state. intros s. cbn. auto. Qed.
Lemma hl_att_bump code run : hl (att_bump code run).
Proof. apply hl_state. intros s. unfold att_bump. cbn. auto. Qed.
Lemma hl_ctr_add inst k : hl (ctr_add inst k).
Proof. apply hl_state. intros s. unfold ctr_add. destruct (c_add _ _). cbn. auto. Qed.
Lemma hl_ctr_clear inst k : hl (ctr_clear inst k).
Proof. apply hl_state. intros s. unfold ctr_clear. cbn. auto. Qed.
Lemma hl_lease_live : hl lease_live.
Proof. apply hl_state. intros s. unfold lease_live. cbn. auto. Qed.

Lemma hl_prim {A} k ctx T E (X : disp -> world -> M A) :
  (forall d w, plain_tok (T d w)) -> (forall w, exists l, w_log (E w) = w_log w ++ l) -> (forall d w, hl (X d w)) -> hl (prim k ctx T E X).
Proof.
  intros HT HE HX s. destruct (prim_spec2 k ctx T E X s) as (d & s1 & W1 & Tr & D0 & D1 & D2 & R). rewrite R.
  eapply hl_trans; [|apply HX].
  assert (HL : exists l, w_log (o_w s1) = w_log (o_w s) ++ l).
  { rewrite W1. destruct (disp_effect d); [apply HE|exists []; now rewrite app_nil_r]. }
  split; [exact HL|]. rewrite Tr. destruct (o_dead s1); [exists []; split; [reflexivity|constructor]|].
  exists [T d (o_w s)]. split; [reflexivity|]. repeat constructor. apply lprov_plain, HT.
Qed.
Lemma hl_prim_ret {A} k ctx T E (a : disp -> world -> A) :
  (forall d w, plain_tok (T d w)) -> (forall w, exists l, w_log (E w) = w_log w ++ l) -> hl (prim k ctx T E (fun d w => disp_ret d (a d w))).
Proof. intros HT HE. apply hl_prim; [exact HT|exact HE|]. intros d w. apply hl_disp_ret. Qed.

Section L.
Variable c : econfig.

Ltac tk := intros; exact I.
Ltac same_log := intros w; exists []; now rewrite app_nil_r.
Lemma hl_p_lookup run : hl (p_lookup run). Proof. unfold p_lookup. apply hl_prim_ret; [tk|same_log]. Qed.
Lemma hl_p_latest fid : hl (p_latest fid). Proof. unfold p_latest. apply hl_prim_ret; [tk|same_log]. Qed.
Lemma hl_p_store r : hl (p_store c r). Proof. unfold p_store. apply hl_prim_ret; [tk|same_log]. Qed.
Lemma hl_p_call_id k ctx args out : hl (p_call k ctx args (fun w => w) out). Proof. unfold p_call. apply hl_prim_ret; [tk|same_log]. Qed.
Lemma hl_p_list_outbox limit : hl (p_list_outbox limit). Proof. unfold p_list_outbox. apply hl_prim_ret; [tk|same_log]. Qed.
Lemma hl_p_send o : hl (p_send o). Proof. unfold p_send. apply hl_prim_ret; [tk|]. intros w. eexists. reflexivity. Qed.
Lemma hl_p_del_outbox id : hl (p_del_outbox id). Proof. unfold p_del_outbox. apply hl_prim_ret; [tk|same_log]. Qed.
Lemma hl_p_list_valid st : hl (p_list_valid st). Proof. unfold p_list_valid. apply hl_prim_ret; [tk|same_log]. Qed.
Lemma hl_p_tcreate fid run st ex : hl (p_tcreate fid run st ex). Proof. unfold p_tcreate. apply hl_prim_ret; [tk|same_log]. Qed.
Lemma hl_p_tcomplete id : hl (p_tcomplete id). Proof. unfold p_tcomplete. apply hl_prim_ret; [tk|same_log]. Qed.
Lemma hl_p_tcancel id : hl (p_tcancel id). Proof. unfold p_tcancel. apply hl_prim_ret; [tk|same_log]. Qed.
Lemma hl_p_ack u idx e : hl (p_ack u idx e). Proof. unfold p_ack. apply hl_prim_ret; [tk|same_log]. Qed.
Lemma hl_m_release u inst : hl (m_release u inst). Proof. unfold m_release. apply hl_get_put. reflexivity. Qed.
Lemma hl_m_acquire u inst : hl (m_acquire u inst). Proof. unfold m_acquire. apply hl_get_put. reflexivity. Qed.

Ltac hl_extra := fail.
Ltac hl_go :=
  repeat first
    [ hl_extra | apply hl_ret | apply hl_fail | (apply hl_emit; exact I) | apply hl_get_w | apply hl_disp_ret
    | apply hl_p_lookup | apply hl_p_latest | apply hl_p_store | apply hl_p_list_outbox | apply hl_p_send
    | apply hl_p_del_outbox | apply hl_p_list_valid | apply hl_p_tcreate | apply hl_p_tcomplete | apply hl_p_tcancel | apply hl_p_ack
    | apply hl_m_release | apply hl_m_acquire | apply hl_att_bump | apply hl_ctr_add | apply hl_ctr_clear | apply hl_lease_live | apply hl_dispatch
    | apply hl_p_call_id
    | apply hl_catch
    | (apply hl_bind; [|intros])
    | assumption
    | match goal with
      | H : forall _, hl _ |- _ => apply H
      | H : forall _ _, hl _ |- _ => apply H
      | |- hl (match ?x with _ => _ end) => destruct x
      | |- hl (let (_, _) := ?x in _) => destruct x
      end ].

Lemma hl_build_run r : hl (build_run r). Proof. unfold build_run. hl_go. Qed.
Lemma hl_ctl_do ctl target reason : hl (ctl_do c ctl target reason). Proof. unfold ctl_do. hl_go. Qed.
Lemma hl_updater cur next run : hl (updater c cur next run). Proof. unfold updater. hl_go. Qed.
Ltac hl_extra ::= first [apply hl_build_run | apply hl_ctl_do | apply hl_updater].

(* an invocation: of a callback / timeout function (nothing to show), or of a step function on a record that an event of the log names *)
Definition names (w : world) (st : Z) (view : record) : Prop :=
  exists e, In e (w_log w) /\ e_topic e = TStatus st /\ e_run e = r_run view /\ e_ver e = r_ver view.
Lemma hl_invoke_at u b status view s :
  match u with UFStep st => names (o_w s) st view | _ => True end -> hl_step s (snd (invoke c u b status view s)).
Proof.
  intros Hn. unfold invoke. unfold bind at 1. unfold att_bump at 1. cbn [fst snd]. unfold bind at 1, get_w. cbn [fst snd].
  destruct (eval_beh b _ (obj_seed (r_obj view))) as [mark act]. cbv zeta.
  match goal with |- hl_step s (snd (bind (emit ?t) ?k ?s1)) =>
    assert (H1 : hl_step s1 (snd (emit t s1))); [apply hl_emit_at; destruct u; cbn; auto|];
    assert (H0 : hl_step s s1) by (apply hl_same; reflexivity);
    unfold bind at 1; destruct (emit_spec2 t s1) as (F1 & _); destruct (emit t s1) as [[[]|er] s2]; cbn [fst snd] in *; [|discriminate]
  end.
  eapply hl_trans; [exact H0|]. eapply hl_trans; [exact H1|]. destruct act; hl_go.
Qed.
Lemma hl_invoke u b status view : match u with UFStep _ => False | _ => True end -> hl (invoke c u b status view).
Proof. intros Hu s. apply hl_invoke_at. destruct u; auto. destruct Hu. Qed.
Lemma hl_maybe_pause inst n e u ctl : hl (maybe_pause c inst n e u ctl). Proof. unfold maybe_pause. hl_go. Qed.
Ltac hl_extra ::= first [apply hl_build_run | apply hl_ctl_do | apply hl_updater | apply hl_maybe_pause].
Lemma hl_inserter_fn st tos : forall j view, hl (inserter_fn st tos j view).
Proof. induction tos as [|t tl IH]; intros j view; cbn [inserter_fn]; hl_go. Qed.

(* what a Lookup by run ID answers with has that run ID (stale answers too) *)
Lemma p_lookup_run run s r s1 : p_lookup run s = (Ok (Some r), s1) -> r_run r = run.
Proof.
  unfold p_lookup. intros H.
  match type of H with prim ?k ?ctx ?T ?E ?X s = _ => destruct (prim_spec2 k ctx T E X s) as (d & s0 & _ & _ & _ & _ & _ & R) end.
  rewrite R in H. clear R.
  assert (Hv : (match d with DoStale => stale_run (o_w s) run | _ => lookup_run (o_w s) run end) = Some r) by (destruct d; cbn in H; inversion H; auto).
  assert (L : forall w, lookup_run w run = Some r -> r_run r = run) by (intros w Hl; rewrite lookup_run_eq in Hl; apply find_run_in in Hl; apply Hl).
  destruct d; try (apply (L _ Hv)). unfold stale_run in Hv.
  destruct (rev (filter (fun r0 => N.eqb (r_run r0) run) (w_hist (o_w s)))) as [|a [|b l]] eqn:E; try (apply (L _ Hv)).
  inversion Hv; subst b.
  assert (Hin : In r (rev (filter (fun r0 => N.eqb (r_run r0) run) (w_hist (o_w s))))) by (rewrite E; right; now left).
  apply in_rev, filter_In in Hin. destruct Hin as [_ Hq]. now apply N.eqb_eq.
Qed.

(* the step consumer of status st, handling an event of its topic that is in the log *)
Lemma hl_step_handler_step inst u st b n e s :
  In e (w_log (o_w s)) -> e_topic e = TStatus st ->
  hl_step s (snd (step_handler c inst u st (invoke c (UFStep st) b st) n e s)).
Proof.
  intros Hin Ht. unfold step_handler. unfold bind at 1.
  pose proof (hl_p_lookup (e_run e) s) as F1.
  destruct (p_lookup (e_run e) s) as [[[r|]|er] s1] eqn:El; cbn [snd] in *; try exact F1.
  pose proof (p_lookup_run _ _ _ _ El) as Hrun.
  destruct (r_ver r >? e_ver e) eqn:G1; [exact F1|]. destruct (r_ver r <? e_ver e) eqn:G2; [exact F1|]. destruct (rs_stopped (r_state r)); [exact F1|].
  unfold bind at 1. unfold build_run. destruct (r_obj r) as [seed tr|] eqn:Eo; [|exact F1]. cbn [ret fst snd].
  eapply hl_trans; [exact F1|]. unfold bind at 1.
  assert (Hn : names (o_w s1) st (promote r)).
  { exists e. destruct F1 as ((l & Hl) & _). split; [rewrite Hl; apply in_or_app; now left|]. split; [exact Ht|].
    assert (P : r_run (promote r) = r_run r /\ r_ver (promote r) = r_ver r) by (unfold promote; destruct (r_state r); auto).
    destruct P as [-> ->]. split; [now rewrite Hrun|]. rewrite Z.gtb_ltb in G1. apply Z.ltb_ge in G1, G2. lia. }
  pose proof (hl_invoke_at (UFStep st) b st (promote r) s1 Hn) as F2.
  destruct (invoke c (UFStep st) b st (promote r) s1) as [[[[obj' oc] ctl]|er] s2]; cbn [snd] in *; [|exact F2].
  eapply hl_trans; [exact F2|]. destruct oc as [z|oe]; [destruct (skip_status z); hl_go|hl_go].
Qed.
Lemma hl_step_handler inst u st fn n e : (forall v, hl (fn v)) -> hl (step_handler c inst u st fn n e).
Proof. intros Hfn. unfold step_handler. hl_go. Qed.
Lemma hl_process_timeouts inst u st n t tos : forall j, hl (process_timeouts c inst u st n tos j t).
Proof. induction tos as [|tc tl IH]; intros j; cbn [process_timeouts]; hl_go; apply hl_invoke; exact I. Qed.
Lemma hl_poll_timers inst u st n l : hl (poll_timers c inst u st n l).
Proof. induction l as [|t tl IH]; cbn [poll_timers]; hl_go. apply hl_process_timeouts. Qed.
Lemma hl_hook_handler st k e : hl (hook_handler st k e). Proof. unfold hook_handler. hl_go. Qed.
Lemma hl_delete_handler e : hl (delete_handler c e).
Proof.
  unfold delete_handler. apply hl_bind; [apply hl_p_lookup|]. intros [r|]; [|hl_go]. apply hl_bind; [|intros; apply hl_p_store].
  destruct (ec_del c =? 0); [hl_go|]. destruct (r_obj r); [|hl_go]. apply hl_bind; [apply hl_att_bump|]. intros n.
  apply hl_bind; [apply hl_get_w|]. intros w. cbv zeta. hl_go.
Qed.
Lemma hl_retry_handler e : hl (retry_handler c e). Proof. unfold retry_handler. hl_go. Qed.

Definition ev_in (w : world) (u : eunit) (e : event) : Prop := In e (w_log w) /\ e_topic e = unit_topic u.
Lemma hl_unit_handler_at inst u e s : ev_in (o_w s) u e -> hl_step s (snd (unit_handler c inst u e s)).
Proof.
  intros [Hin Ht]. unfold unit_handler. destruct u; try apply hl_fail.
  - destruct (find_step c s0); [|apply hl_fail]. apply hl_step_handler_step; assumption.
  - apply hl_step_handler. intros v. apply hl_inserter_fn.
  - apply hl_hook_handler.
  - apply hl_delete_handler.
  - apply hl_retry_handler.
  - unfold conn_handler. hl_go.
Qed.
Lemma hl_relay_entries l : hl (relay_entries l).
Proof. induction l as [|o tl IH]; cbn [relay_entries]; hl_go. Qed.
Lemma hl_exit_err inst u close e : hl (exit_err c inst u close e).
Proof.
  unfold exit_err. apply hl_bind; [destruct close; hl_go|]. intros _. destruct (e =? ECancel); [hl_go|].
  apply hl_bind; [apply hl_get_w|]. intros w. apply hl_ite; [|apply hl_ite]; hl_go.
Qed.
Lemma hl_guarded_at inst u close (m : M pstate) s : hl_step s (snd (m s)) -> hl_step s (snd (guarded c inst u close m s)).
Proof.
  intros Hm. unfold guarded. destruct (m s) as [[ps|e] s']; cbn [snd] in *; [exact Hm|].
  eapply hl_trans; [exact Hm|apply hl_exit_err].
Qed.
Lemma hl_guarded inst u close (m : M pstate) : hl m -> hl (guarded c inst u close m).
Proof. intros Hm s. apply hl_guarded_at, Hm. Qed.
Lemma hl_api_trigger fid start seed : hl (api_trigger c fid start seed).
Proof.
  unfold api_trigger. destruct (if start =? 0 then _ else _); [|apply hl_fail].
  destruct (negb _); [apply hl_fail|]. apply hl_bind; [apply hl_p_latest|]. intros lastr.
  destruct (match lastr with Some _ => _ | None => _ end); [apply hl_fail|].
  intros s. unfold bind at 1, get_w. cbn [fst snd]. unfold bind at 1, put_w. cbn [fst snd].
  eapply hl_trans; [|apply hl_p_store]. apply hl_same; reflexivity.
Qed.
Ltac hl_extra ::= first [apply hl_build_run | apply hl_ctl_do | apply hl_updater | apply hl_maybe_pause | apply hl_api_trigger].
Lemma hl_api_callbacks fid status cbs : forall j, hl (api_callbacks c fid status cbs j).
Proof. induction cbs as [|cb tl IH]; intros j; cbn [api_callbacks]; hl_go; apply hl_invoke; exact I. Qed.
Lemma hl_api_ctl run o : hl (api_ctl c run o). Proof. unfold api_ctl. hl_go. Qed.
Lemma hl_sched_after_wait inst sc : hl (sched_after_wait c inst sc). Proof. unfold sched_after_wait. hl_go. Qed.
Lemma hl_sched_body inst sc : hl (sched_body c inst sc). Proof. unfold sched_body. hl_go; apply hl_sched_after_wait. Qed.
Lemma hl_poll_once inst u st : hl (poll_once c inst u st). Proof. unfold poll_once. hl_go. apply hl_poll_timers. Qed.

Lemma ev_in_ext w w' u e : (exists l, w_log w' = w_log w ++ l) -> ev_in w u e -> ev_in w' u e.
Proof. intros (l & E) [A B]. split; [rewrite E; apply in_or_app; now left|exact B]. Qed.

Lemma hl_after_lag_at inst u idx e s : ev_in (o_w s) u e -> hl_step s (snd (after_lag c inst u idx e s)).
Proof.
  intros He. unfold after_lag. unfold bind at 1.
  assert (H1 : hl_step s (snd ((if unit_filter u e then p_ack u idx e else unit_handler c inst u e ;;; p_ack u idx e) s))).
  { destruct (unit_filter u e); [apply hl_p_ack|]. unfold bind. pose proof (hl_unit_handler_at inst u e s He) as H.
    destruct (unit_handler c inst u e s) as [[[]|er] s1]; cbn [snd] in *; [|exact H]. eapply hl_trans; [exact H|apply hl_p_ack]. }
  destruct ((if unit_filter u e then p_ack u idx e else unit_handler c inst u e ;;; p_ack u idx e) s) as [[[]|er] s1]; exact H1.
Qed.

Lemma next_event_in t l pos idx e : next_event t l 0 pos = Some (idx, e) -> In e l /\ e_topic e = t.
Proof. intros H. destruct (next_event_spec _ _ _ _ _ _ H) as (_ & A & B & _). rewrite Nat.sub_0_r in A. split; [eapply nth_error_In, A|exact B]. Qed.

Lemma hl_consume_iter inst u : hl (consume_iter c inst u).
Proof.
  intros s. unfold consume_iter. unfold bind at 1, get_w. cbn [fst snd]. unfold bind at 1, lease_live. cbn [fst snd].
  destruct (next_event (unit_topic u) (w_log (o_w s)) 0 (get_cursor (o_w s) u)) as [[idx e]|] eqn:En.
  - apply next_event_in in En. unfold bind at 1.
    pose proof (hl_dispatch KRV true s) as F0. destruct (dispatch_spec2 KRV true s) as (d & Ed & Ew & _).
    destruct (dispatch KRV true s) as [[d'|er] s0]; cbn [fst snd] in *; [|discriminate]. inversion Ed; subst d'.
    assert (He : ev_in (o_w s0) u e) by (rewrite Ew; exact En).
    assert (Hok : hl_step s0 (snd ((emit (TRecv e) ;;;
                      (let lag := unit_lag c u in
                       if (lag >? 0) && (e_created e + lag >? w_now (o_w s))
                       then emit (TCall KTW [e_created e + lag] RBlocked []) ;;; ret (PLag idx e (e_created e + lag))
                       else after_lag c inst u idx e)) s0))).
    { unfold bind at 1. pose proof (hl_emit (TRecv e) I s0) as G. destruct (emit_spec2 (TRecv e) s0) as (G1 & G2 & _).
      destruct (emit (TRecv e) s0) as [[[]|er] s1]; cbn [fst snd] in *; [|discriminate].
      eapply hl_trans; [exact G|]. cbv zeta. destruct (_ && _); [apply (ltac:(hl_go) : hl (emit (TCall KTW [e_created e + unit_lag c u] RBlocked []) ;;; ret (PLag idx e (e_created e + unit_lag c u))))|].
      apply hl_after_lag_at. rewrite G2. exact He. }
    eapply hl_trans; [exact F0|]. destruct d; try exact Hok; apply (ltac:(hl_go) : hl (emit (TCall KRV [] (disp_res _) []) ;;; disp_ret _ PRun)).
  - destruct (o_lease s && negb (o_dead s)); [apply (ltac:(hl_go) : hl (emit (TCall KRV [] RBlocked []) ;;; ret PRun))|].
    apply (ltac:(hl_go) : hl (d <- dispatch KRV true ;; emit (TCall KRV [] (disp_res d) []) ;;; disp_ret d PRun)).
Qed.

Ltac hl_extra ::= first [apply hl_build_run | apply hl_ctl_do | apply hl_updater | apply hl_maybe_pause | apply hl_api_trigger
                        | apply hl_sched_after_wait | apply hl_relay_entries | apply hl_poll_once | apply hl_sched_body
                        | apply hl_exit_err | (apply hl_guarded) | apply hl_poll_timers | apply hl_consume_iter ].

(* one scheduling step of a process that holds no event *)
Lemma hl_proc_op_nolag inst u ps : match ps with PLag _ _ _ => False | _ => True end -> hl (proc_op c inst u ps).
Proof.
  intros Hps. unfold proc_op. destruct ps as [| |idx e deadline|deadline|deadline]; [| |destruct Hps| |].
  - apply hl_bind; [apply hl_get_w|]. intros w. destruct (role_holder w u); [hl_go|].
    apply hl_bind; [apply hl_dispatch|]. intros d.
    assert (Hgo : hl (emit (TCall KAW [] ROk []) ;;; m_acquire u inst ;;;
               match u with
               | EOutbox => guarded c inst u false (l <- p_list_outbox (ec_limit c) ;; relay_entries l ;;; m_release u inst ;;; ret PIdle)
               | EPoller s0 => guarded c inst u false (poll_once c inst u s0)
               | ESched fid => match find_sched c fid with
                               | Some sc => guarded c inst u false (sched_body c inst sc)
                               | None => m_release u inst ;;; ret PIdle
                               end
               | _ => guarded c inst u false (p_call KNR true [] (fun w0 => w0) (fun _ => []) ;;; ret PRun)
               end)).
    { apply hl_bind; [apply hl_emit; exact I|]. intros _. apply hl_bind; [apply hl_m_acquire|]. intros _.
      destruct u; try (apply hl_guarded; hl_go). destruct (find_sched c fid); [apply hl_guarded, hl_sched_body|hl_go]. }
    destruct d; try exact Hgo; hl_go.
  - destruct u; hl_go.
  - apply hl_bind; [apply hl_get_w|]. intros w. apply hl_bind; [apply hl_lease_live|]. intros lv.
    destruct (negb lv); [hl_go|]. destruct (deadline >? w_now w); hl_go.
  - apply hl_bind; [apply hl_get_w|]. intros w. apply hl_bind; [apply hl_lease_live|]. intros lv.
    destruct (negb lv); [hl_go; apply hl_fail|]. destruct (deadline >? w_now w); [hl_go|].
    apply hl_bind; [apply hl_emit; exact I|]. intros _. destruct u; try apply hl_ret.
    destruct (find_sched c fid); [apply hl_guarded, hl_sched_after_wait|apply hl_ret].
Qed.

(* one scheduling step of a process, from every state in which the event the process holds is an event of its topic in the log *)
Theorem hl_proc_op inst u ps s :
  (forall idx e d, ps = PLag idx e d -> ev_in (o_w s) u e) -> hl_step s (snd (proc_op c inst u ps s)).
Proof.
  intros Hps. destruct ps as [| |idx e deadline|deadline|deadline]; try (apply hl_proc_op_nolag; exact I).
  specialize (Hps idx e deadline eq_refl). unfold proc_op. unfold bind at 1, get_w. cbn [fst snd]. unfold bind at 1, lease_live. cbn [fst snd].
  destruct (negb (o_lease s && negb (o_dead s))).
  - apply (ltac:(hl_go; apply hl_fail) : hl (emit (TCall KTW [deadline] RCancel []) ;;; guarded c inst u true (fail ECancel))).
  - destruct (deadline >? w_now (o_w s)); [apply (ltac:(hl_go) : hl (emit (TCall KTW [deadline] RBlocked []) ;;; ret (PLag idx e deadline)))|].
    unfold bind at 1. pose proof (hl_emit (TCall KTW [deadline] ROk []) I s) as G. destruct (emit_spec2 (TCall KTW [deadline] ROk []) s) as (G1 & G2 & _).
    destruct (emit (TCall KTW [deadline] ROk []) s) as [[[]|er] s1]; cbn [fst snd] in *; [|discriminate].
    eapply hl_trans; [exact G|]. apply hl_guarded_at, hl_after_lag_at. rewrite G2. exact Hps.
Qed.

(* ---------- whole operations and histories ---------- *)
Definition lpost (w w' : world) (t : list tok) : Prop := (exists l, w_log w' = w_log w ++ l) /\ Forall (lprov (w_log w')) t.
Lemma lpost_same w w' : w_log w' = w_log w -> lpost w w' [].
Proof. intros E. split; [exists []; rewrite E; now rewrite app_nil_r|constructor]. Qed.

Lemma run_api_lpost w p (m : M unit) : hl m -> lpost w (fst (run_api w p m)) (snd (run_api w p m)).
Proof.
  intros Hm. unfold run_api. destruct (Hm (mkOst w p [] [] true false)) as (L & t & Et & F). cbn [o_trace o_w] in *. rewrite app_nil_r in Et.
  destruct (m (mkOst w p [] [] true false)) as [[[]|e] s]; cbn [fst snd] in *; (split; [exact L|]); rewrite Et; cbn [rev];
    apply Forall_app; (split; [apply Forall_rev, F|repeat constructor]).
Qed.

Theorem run_op_lpost w o : WI c w -> lpost w (fst (run_op c w o)) (snd (run_op c w o)).
Proof.
  intros HW.
  destruct o as [fid start seed p|fid status p|run op ui p|d|inst u p|inst|inst fid valid|inst u|u pos|idx|cid id fid]; cbn [run_op].
  - apply run_api_lpost, hl_api_trigger.
  - apply run_api_lpost, hl_api_callbacks.
  - pose proof (run_api_lpost w p (api_ctl c run op) (hl_api_ctl run op)) as [L F].
    destruct (run_api w p (api_ctl c run op)) as [w' t]. cbn [fst snd] in *. split; [exact L|]. destruct ui; [|exact F].
    clear -F. induction F as [|x l Hx Hl IH]; cbn; [constructor|]. constructor; [|exact IH]. destruct x; exact Hx.
  - apply lpost_same. reflexivity.
  - set (ps := get_pstate w (inst, u)).
    set (w1 := set_lost w (filter (fun x => negb (procid_eqb (inst, u) x)) (w_lost w))).
    set (s0 := mkOst w1 p [] [] _ false).
    assert (Hps : forall idx e d, ps = PLag idx e d -> ev_in (o_w s0) u e).
    { intros idx e d E. apply (get_pstate_lag c w inst u idx e d HW E). }
    destruct (hl_proc_op inst u ps s0 Hps) as (L & t & Et & F). cbn [o_trace o_w] in Et, L. rewrite app_nil_r in Et.
    destruct (proc_op c inst u ps s0) as [[ps'|e] s]; cbn [fst snd] in *.
    + assert (E : w_log (if o_dead s then crash_inst (put_pstate (o_w s) (inst, u) ps') inst else put_pstate (o_w s) (inst, u) ps') = w_log (o_w s))
        by (destruct (o_dead s); reflexivity).
      split; [rewrite E; exact L|]. rewrite E, Et. apply Forall_rev, F.
    + assert (E : w_log (if o_dead s then crash_inst (o_w s) inst else o_w s) = w_log (o_w s)) by (destruct (o_dead s); reflexivity).
      split; [rewrite E; exact L|]. rewrite E, Et. apply Forall_rev, F.
  - apply lpost_same. reflexivity.
  - split; [exists []; now rewrite app_nil_r|repeat constructor].
  - destruct (get_pstate w (inst, u)); apply lpost_same; reflexivity.
  - apply lpost_same. reflexivity.
  - destruct (nth_error (w_log w) idx); [|apply lpost_same; reflexivity]. split; [eexists; reflexivity|constructor].
  - split; [eexists; reflexivity|constructor].
Qed.

Lemma run_ops_from_lpost : forall ops, Forall op_ok ops -> forall n w, WI c w ->
  lpost w (fst (run_ops_from c n w ops)) (snd (run_ops_from c n w ops)).
Proof.
  induction 1 as [|o tl Ho Htl IH]; intros n w HW; cbn [run_ops_from]; [apply lpost_same; reflexivity|].
  pose proof (run_op_lpost w o HW) as [(l1 & L1) F1]. destruct (run_op_ok c w o HW Ho) as [HW1 _].
  destruct (run_op c w o) as [w1 t1]. cbn [fst snd] in *. specialize (IH (S n) w1 HW1). destruct IH as [(l2 & L2) F2].
  destruct (run_ops_from c (S n) w1 tl) as [w2 t2]. cbn [fst snd] in *.
  split; [exists (l1 ++ l2); rewrite L2, L1; now rewrite app_assoc|].
  constructor; [exact I|]. apply Forall_app. split; [|exact F2]. rewrite L2. eapply Forall_impl; [|exact F1]. intros x. apply lprov_mono.
Qed.

Lemma route_topic_status r s : route_topic r = TStatus s -> r_status r = s.
Proof.
  unfold route_topic, route_topic_code. destruct (_ || _); [discriminate|]. destruct (_ =? 7); [discriminate|]. intros H. now inversion H.
Qed.

(* a step function of status s is invoked only for a run PERSISTED at status s *)
Theorem step_invoked_at_its_status ops : hist_ok ops ->
  forall s view q now pl, In (TUser (UFStep s) view (Some q) now pl) (trace_of c ops) -> r_status q = s.
Proof.
  intros H s view q now pl Hin. unfold trace_of in Hin.
  destruct (run_ops_from_lpost ops H 0%nat w0 (w0_WI c)) as [_ F]. rewrite Forall_forall in F.
  destruct (F _ Hin) as (e & He & Et & Er & Ev).
  assert (Hc : conn_topic (e_topic e) = false) by (rewrite Et; reflexivity).
  destruct (p_nothing_invented c ops H e He Hc) as (x & Hx & (_ & E2 & E3 & _ & _ & _ & E7)). cbn in E2, E3, E7.
  pose proof (tok_in c ops H _ Hin) as Tu. cbn in Tu.
  destruct (user_ok_step (UFStep s) view (Some q) eq_refl Tu) as (q' & Eq & _ & _ & Q2 & _ & Q4). inversion Eq; subst q'.
  destruct (hist_versions c ops H) as [Hv Hp]. rewrite Forall_forall in Hp. pose proof (Hp _ Hin) as Pq. cbn in Pq.
  assert (x = q) by (apply (hv_uniq _ Hv); [exact Hx|exact Pq|congruence|congruence]). subst x.
  apply route_topic_status. congruence.
Qed.

End L.
