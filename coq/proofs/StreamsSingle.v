(* StreamsSingle.v — memstreamer refines the reference stream on EVERY sequence over a single topic, with receiver names and
   StreamFromLatest settings chosen freely per receiver (a name may be used with and without the option): on a single topic the
   Recv loop never skips an event, so a position is stored only by an acknowledgement or by StreamFromLatest on a name without
   one — reading is not storing — and the two machines go through the same states. (With several topics memstreamer also
   commits a position while skipping foreign events; there the refinement needs a name to keep one option: StreamsProofs.v.) *)
From WF Require Import model.Base model.Streams.
From Coq Require Import Lia.
Open Scope list_scope.
Open Scope nat_scope.

Definition to_r (m : mstream) : rstream := mkRstream (ml_log m) (ml_cur m) (ml_hs m).
Definition wf1 (t : N) (m : mstream) : Prop :=
  Forall (fun e : sev => fst e = t) (ml_log m) /\ Forall (fun h => h_topic h = t) (ml_hs m).

Lemma first_from_single t l : forall idx pos : nat, Forall (fun e : sev => fst e = t) l -> (idx <= pos)%nat ->
  first_from t l idx pos = match nth_error l (pos - idx)%nat with Some e => Some (pos, e) | None => None end.
Proof.
  induction l as [|e l IH]; intros idx pos Hl Hle; cbn [first_from].
  - destruct (pos - idx); reflexivity.
  - pose proof (Forall_inv Hl) as He. pose proof (Forall_inv_tail Hl) as Hl'. cbn beta in He.
    destruct (Nat.leb pos idx) eqn:E.
    + apply Nat.leb_le in E. assert (pos = idx) by lia. subst pos. rewrite Nat.sub_diag. cbn.
      rewrite He, N.eqb_refl. reflexivity.
    + apply Nat.leb_gt in E. cbn [andb]. rewrite (IH (S idx) pos Hl' ltac:(lia)).
      replace (pos - idx)%nat with (S (pos - S idx)) by lia. reflexivity.
Qed.

Lemma mem_scan_single t l (c : nat) : Forall (fun e : sev => fst e = t) l ->
  mem_scan t l c = match l with e :: _ => (c, Some e) | [] => (c, None) end.
Proof. intros Hl. destruct l as [|e l]; [reflexivity|]. pose proof (Forall_inv Hl) as He. cbn beta in He. cbn. rewrite He, N.eqb_refl. reflexivity. Qed.

Lemma skipn_head {A} (l : list A) (c : nat) : match skipn c l with e :: _ => nth_error l c = Some e | [] => nth_error l c = None end.
Proof.
  revert c. induction l as [|x l IH]; intros c; destruct c; cbn; try reflexivity. apply IH.
Qed.

Lemma Forall_skipn {A} (P : A -> Prop) l (c : nat) : Forall P l -> Forall P (skipn c l).
Proof. revert c. induction l as [|x l IH]; intros c H; destruct c; cbn; auto. apply IH. exact (Forall_inv_tail H). Qed.

Lemma filter_Forall {A} (P : A -> Prop) f (l : list A) : Forall P l -> Forall P (filter f l).
Proof. induction 1; cbn; [constructor|]. destruct (f x); [constructor|]; assumption. Qed.

Lemma get_h_topic t hs h x : Forall (fun h => h_topic h = t) hs -> get_h hs h = Some x -> h_topic x = t.
Proof.
  unfold get_h. induction hs as [|y ys IH]; cbn; [discriminate|]. intros H.
  pose proof (Forall_inv H) as Hy. pose proof (Forall_inv_tail H) as Hys. cbn beta in Hy.
  destruct (N.eqb (h_id y) h); [intros E; inversion E as [E']; rewrite <- E'; exact Hy|apply IH; assumption].
Qed.

(* one step: same answer, same next state (through to_r), well-formedness kept *)
Lemma single_step t m o : wf1 t m -> single_op t o = true ->
  rref_step (to_r m) o = (to_r (fst (mmem_step m o)), snd (mmem_step m o)) /\ wf1 t (fst (mmem_step m o)).
Proof.
  intros [Hlog Hhs] Ho. destruct o as [topic payload|h topic name latest|h|h]; cbn [single_op] in Ho.
  - apply N.eqb_eq in Ho. subst topic. cbn. split; [reflexivity|]. split; [|exact Hhs].
    cbn. apply Forall_app. split; [exact Hlog|repeat constructor].
  - apply N.eqb_eq in Ho. subst topic. cbn [mmem_step rref_step to_r ml_log ml_cur ml_hs rl_log rl_pos rl_hs fst snd].
    split; [reflexivity|]. split; [exact Hlog|]. cbn. constructor; [reflexivity|]. apply filter_Forall, Hhs.
  - cbn [mmem_step rref_step to_r ml_log ml_cur ml_hs rl_log rl_pos rl_hs].
    destruct (get_h (ml_hs m) h) as [x|] eqn:Eh; [|split; [reflexivity|split; assumption]].
    pose proof (get_h_topic t _ _ _ Hhs Eh) as Ht. rewrite Ht.
    set (c := pos_or0 (ml_cur m) (h_name x)).
    rewrite (first_from_single t (ml_log m) 0%nat c Hlog ltac:(lia)). rewrite Nat.sub_0_r.
    rewrite (mem_scan_single t (skipn c (ml_log m)) c (Forall_skipn _ _ _ Hlog)).
    pose proof (skipn_head (ml_log m) c) as Hs.
    destruct (skipn c (ml_log m)) as [|e rest]; rewrite Hs; rewrite Nat.eqb_refl; cbn [fst snd].
    + split; [reflexivity|]. split; assumption.
    + split; [reflexivity|]. split; [exact Hlog|]. cbn. constructor; [reflexivity|]. apply filter_Forall, Hhs.
  - cbn [mmem_step rref_step to_r ml_log ml_cur ml_hs rl_log rl_pos rl_hs].
    destruct (get_h (ml_hs m) h) as [x|]; [|split; [reflexivity|split; assumption]].
    destruct (h_last x); (split; [reflexivity|split; assumption]).
Qed.

Theorem streams_refine_single : forall t ops m, wf1 t m -> single_topic t ops = true -> mmem_run m ops = rref_run (to_r m) ops.
Proof.
  intros t ops. induction ops as [|o ops IH]; intros m Hm Hops; [reflexivity|].
  cbn [single_topic forallb] in Hops. apply andb_prop in Hops as [Ho Hops].
  destruct (single_step t m o Hm Ho) as [Hs Hw].
  cbn [mmem_run rref_run]. rewrite Hs. destruct (mmem_step m o) as [m' b]. cbn [fst snd] in *.
  f_equal. apply IH; assumption.
Qed.

Corollary streams_refine_single_from_empty : forall t ops, single_topic t ops = true -> mmem_run mstream0 ops = rref_run rstream0 ops.
Proof. intros t ops H. apply (streams_refine_single t ops mstream0); [split; constructor|exact H]. Qed.
