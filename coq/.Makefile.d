model/Base.vo model/Base.glob model/Base.v.beautified model/Base.required_vo: model/Base.v 
model/Base.vio: model/Base.v 
model/Base.vos model/Base.vok model/Base.required_vos: model/Base.v 
model/Shard.vo model/Shard.glob model/Shard.v.beautified model/Shard.required_vo: model/Shard.v model/Base.vo
model/Shard.vio: model/Shard.v model/Base.vio
model/Shard.vos model/Shard.vok model/Shard.required_vos: model/Shard.v model/Base.vos
proofs/ShardProofs.vo proofs/ShardProofs.glob proofs/ShardProofs.v.beautified proofs/ShardProofs.required_vo: proofs/ShardProofs.v model/Base.vo model/Shard.vo
proofs/ShardProofs.vio: proofs/ShardProofs.v model/Base.vio model/Shard.vio
proofs/ShardProofs.vos proofs/ShardProofs.vok proofs/ShardProofs.required_vos: proofs/ShardProofs.v model/Base.vos model/Shard.vos
props/C10.vo props/C10.glob props/C10.v.beautified props/C10.required_vo: props/C10.v model/Base.vo model/Shard.vo proofs/ShardProofs.vo
props/C10.vio: props/C10.v model/Base.vio model/Shard.vio proofs/ShardProofs.vio
props/C10.vos props/C10.vok props/C10.required_vos: props/C10.v model/Base.vos model/Shard.vos proofs/ShardProofs.vos
