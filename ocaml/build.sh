#!/bin/sh
# Extract the Coq model to OCaml and build the driver. Run from anywhere.
set -e
cd "$(dirname "$0")"
coqc -R ../coq WF ../coq/extract/Extract.v > extract.log 2>&1 || { cat extract.log; exit 1; }
ocamlfind ocamlopt -O3 -w -a -package str wfmodel.mli wfmodel.ml conv.ml kinds_extra.ml kinds_graph.ml kinds_adapters.ml tokparse.ml engparse.ml monitors_engine.ml kinds_engine.ml coqprint.ml driver.ml -linkpkg -o driver 2>/dev/null || \
ocamlfind ocamlopt -w -a -package str wfmodel.mli wfmodel.ml conv.ml kinds_extra.ml kinds_graph.ml kinds_adapters.ml tokparse.ml engparse.ml monitors_engine.ml kinds_engine.ml coqprint.ml driver.ml -linkpkg -o driver
