
(** val negb : bool -> bool **)

let negb = function
| true -> false
| false -> true

type nat =
| O
| S of nat

(** val snd : ('a1 * 'a2) -> 'a2 **)

let snd = function
| (_, y) -> y

(** val length : 'a1 list -> nat **)

let rec length = function
| [] -> O
| _ :: l' -> S (length l')

(** val app : 'a1 list -> 'a1 list -> 'a1 list **)

let rec app l m =
  match l with
  | [] -> m
  | a :: l1 -> a :: (app l1 m)

type comparison =
| Eq
| Lt
| Gt

(** val compOpp : comparison -> comparison **)

let compOpp = function
| Eq -> Eq
| Lt -> Gt
| Gt -> Lt

module Coq__1 = struct
 (** val add : nat -> nat -> nat **)
 let rec add n0 m =
   match n0 with
   | O -> m
   | S p -> S (add p m)
end
include Coq__1

module Nat =
 struct
  (** val eqb : nat -> nat -> bool **)

  let rec eqb n0 m =
    match n0 with
    | O -> (match m with
            | O -> true
            | S _ -> false)
    | S n' -> (match m with
               | O -> false
               | S m' -> eqb n' m')
 end

type positive =
| XI of positive
| XO of positive
| XH

type n =
| N0
| Npos of positive

type z =
| Z0
| Zpos of positive
| Zneg of positive

module Pos =
 struct
  type mask =
  | IsNul
  | IsPos of positive
  | IsNeg
 end

module Coq_Pos =
 struct
  (** val succ : positive -> positive **)

  let rec succ = function
  | XI p -> XO (succ p)
  | XO p -> XI p
  | XH -> XO XH

  (** val add : positive -> positive -> positive **)

  let rec add x y =
    match x with
    | XI p ->
      (match y with
       | XI q -> XO (add_carry p q)
       | XO q -> XI (add p q)
       | XH -> XO (succ p))
    | XO p ->
      (match y with
       | XI q -> XI (add p q)
       | XO q -> XO (add p q)
       | XH -> XI p)
    | XH -> (match y with
             | XI q -> XO (succ q)
             | XO q -> XI q
             | XH -> XO XH)

  (** val add_carry : positive -> positive -> positive **)

  and add_carry x y =
    match x with
    | XI p ->
      (match y with
       | XI q -> XI (add_carry p q)
       | XO q -> XO (add_carry p q)
       | XH -> XI (succ p))
    | XO p ->
      (match y with
       | XI q -> XO (add_carry p q)
       | XO q -> XI (add p q)
       | XH -> XO (succ p))
    | XH ->
      (match y with
       | XI q -> XI (succ q)
       | XO q -> XO (succ q)
       | XH -> XI XH)

  (** val pred_double : positive -> positive **)

  let rec pred_double = function
  | XI p -> XI (XO p)
  | XO p -> XI (pred_double p)
  | XH -> XH

  type mask = Pos.mask =
  | IsNul
  | IsPos of positive
  | IsNeg

  (** val succ_double_mask : mask -> mask **)

  let succ_double_mask = function
  | IsNul -> IsPos XH
  | IsPos p -> IsPos (XI p)
  | IsNeg -> IsNeg

  (** val double_mask : mask -> mask **)

  let double_mask = function
  | IsPos p -> IsPos (XO p)
  | x0 -> x0

  (** val double_pred_mask : positive -> mask **)

  let double_pred_mask = function
  | XI p -> IsPos (XO (XO p))
  | XO p -> IsPos (XO (pred_double p))
  | XH -> IsNul

  (** val sub_mask : positive -> positive -> mask **)

  let rec sub_mask x y =
    match x with
    | XI p ->
      (match y with
       | XI q -> double_mask (sub_mask p q)
       | XO q -> succ_double_mask (sub_mask p q)
       | XH -> IsPos (XO p))
    | XO p ->
      (match y with
       | XI q -> succ_double_mask (sub_mask_carry p q)
       | XO q -> double_mask (sub_mask p q)
       | XH -> IsPos (pred_double p))
    | XH -> (match y with
             | XH -> IsNul
             | _ -> IsNeg)

  (** val sub_mask_carry : positive -> positive -> mask **)

  and sub_mask_carry x y =
    match x with
    | XI p ->
      (match y with
       | XI q -> succ_double_mask (sub_mask_carry p q)
       | XO q -> double_mask (sub_mask p q)
       | XH -> IsPos (pred_double p))
    | XO p ->
      (match y with
       | XI q -> double_mask (sub_mask_carry p q)
       | XO q -> succ_double_mask (sub_mask_carry p q)
       | XH -> double_pred_mask p)
    | XH -> IsNeg

  (** val mul : positive -> positive -> positive **)

  let rec mul x y =
    match x with
    | XI p -> add y (XO (mul p y))
    | XO p -> XO (mul p y)
    | XH -> y

  (** val compare_cont : comparison -> positive -> positive -> comparison **)

  let rec compare_cont r x y =
    match x with
    | XI p ->
      (match y with
       | XI q -> compare_cont r p q
       | XO q -> compare_cont Gt p q
       | XH -> Gt)
    | XO p ->
      (match y with
       | XI q -> compare_cont Lt p q
       | XO q -> compare_cont r p q
       | XH -> Gt)
    | XH -> (match y with
             | XH -> r
             | _ -> Lt)

  (** val compare : positive -> positive -> comparison **)

  let compare =
    compare_cont Eq

  (** val eqb : positive -> positive -> bool **)

  let rec eqb p q =
    match p with
    | XI p0 -> (match q with
                | XI q0 -> eqb p0 q0
                | _ -> false)
    | XO p0 -> (match q with
                | XO q0 -> eqb p0 q0
                | _ -> false)
    | XH -> (match q with
             | XH -> true
             | _ -> false)

  (** val iter_op : ('a1 -> 'a1 -> 'a1) -> positive -> 'a1 -> 'a1 **)

  let rec iter_op op p a =
    match p with
    | XI p0 -> op a (iter_op op p0 (op a a))
    | XO p0 -> iter_op op p0 (op a a)
    | XH -> a

  (** val to_nat : positive -> nat **)

  let to_nat x =
    iter_op Coq__1.add x (S O)

  (** val of_succ_nat : nat -> positive **)

  let rec of_succ_nat = function
  | O -> XH
  | S x -> succ (of_succ_nat x)
 end

module N =
 struct
  (** val succ_double : n -> n **)

  let succ_double = function
  | N0 -> Npos XH
  | Npos p -> Npos (XI p)

  (** val double : n -> n **)

  let double = function
  | N0 -> N0
  | Npos p -> Npos (XO p)

  (** val add : n -> n -> n **)

  let add n0 m =
    match n0 with
    | N0 -> m
    | Npos p -> (match m with
                 | N0 -> n0
                 | Npos q -> Npos (Coq_Pos.add p q))

  (** val sub : n -> n -> n **)

  let sub n0 m =
    match n0 with
    | N0 -> N0
    | Npos n' ->
      (match m with
       | N0 -> n0
       | Npos m' ->
         (match Coq_Pos.sub_mask n' m' with
          | Coq_Pos.IsPos p -> Npos p
          | _ -> N0))

  (** val compare : n -> n -> comparison **)

  let compare n0 m =
    match n0 with
    | N0 -> (match m with
             | N0 -> Eq
             | Npos _ -> Lt)
    | Npos n' -> (match m with
                  | N0 -> Gt
                  | Npos m' -> Coq_Pos.compare n' m')

  (** val eqb : n -> n -> bool **)

  let eqb n0 m =
    match n0 with
    | N0 -> (match m with
             | N0 -> true
             | Npos _ -> false)
    | Npos p -> (match m with
                 | N0 -> false
                 | Npos q -> Coq_Pos.eqb p q)

  (** val leb : n -> n -> bool **)

  let leb x y =
    match compare x y with
    | Gt -> false
    | _ -> true

  (** val pos_div_eucl : positive -> n -> n * n **)

  let rec pos_div_eucl a b =
    match a with
    | XI a' ->
      let (q, r) = pos_div_eucl a' b in
      let r' = succ_double r in
      if leb b r' then ((succ_double q), (sub r' b)) else ((double q), r')
    | XO a' ->
      let (q, r) = pos_div_eucl a' b in
      let r' = double r in
      if leb b r' then ((succ_double q), (sub r' b)) else ((double q), r')
    | XH ->
      (match b with
       | N0 -> (N0, (Npos XH))
       | Npos p -> (match p with
                    | XH -> ((Npos XH), N0)
                    | _ -> (N0, (Npos XH))))

  (** val to_nat : n -> nat **)

  let to_nat = function
  | N0 -> O
  | Npos p -> Coq_Pos.to_nat p

  (** val of_nat : nat -> n **)

  let of_nat = function
  | O -> N0
  | S n' -> Npos (Coq_Pos.of_succ_nat n')
 end

module Z =
 struct
  (** val double : z -> z **)

  let double = function
  | Z0 -> Z0
  | Zpos p -> Zpos (XO p)
  | Zneg p -> Zneg (XO p)

  (** val succ_double : z -> z **)

  let succ_double = function
  | Z0 -> Zpos XH
  | Zpos p -> Zpos (XI p)
  | Zneg p -> Zneg (Coq_Pos.pred_double p)

  (** val pred_double : z -> z **)

  let pred_double = function
  | Z0 -> Zneg XH
  | Zpos p -> Zpos (Coq_Pos.pred_double p)
  | Zneg p -> Zneg (XI p)

  (** val pos_sub : positive -> positive -> z **)

  let rec pos_sub x y =
    match x with
    | XI p ->
      (match y with
       | XI q -> double (pos_sub p q)
       | XO q -> succ_double (pos_sub p q)
       | XH -> Zpos (XO p))
    | XO p ->
      (match y with
       | XI q -> pred_double (pos_sub p q)
       | XO q -> double (pos_sub p q)
       | XH -> Zpos (Coq_Pos.pred_double p))
    | XH ->
      (match y with
       | XI q -> Zneg (XO q)
       | XO q -> Zneg (Coq_Pos.pred_double q)
       | XH -> Z0)

  (** val add : z -> z -> z **)

  let add x y =
    match x with
    | Z0 -> y
    | Zpos x' ->
      (match y with
       | Z0 -> x
       | Zpos y' -> Zpos (Coq_Pos.add x' y')
       | Zneg y' -> pos_sub x' y')
    | Zneg x' ->
      (match y with
       | Z0 -> x
       | Zpos y' -> pos_sub y' x'
       | Zneg y' -> Zneg (Coq_Pos.add x' y'))

  (** val opp : z -> z **)

  let opp = function
  | Z0 -> Z0
  | Zpos x0 -> Zneg x0
  | Zneg x0 -> Zpos x0

  (** val sub : z -> z -> z **)

  let sub m n0 =
    add m (opp n0)

  (** val mul : z -> z -> z **)

  let mul x y =
    match x with
    | Z0 -> Z0
    | Zpos x' ->
      (match y with
       | Z0 -> Z0
       | Zpos y' -> Zpos (Coq_Pos.mul x' y')
       | Zneg y' -> Zneg (Coq_Pos.mul x' y'))
    | Zneg x' ->
      (match y with
       | Z0 -> Z0
       | Zpos y' -> Zneg (Coq_Pos.mul x' y')
       | Zneg y' -> Zpos (Coq_Pos.mul x' y'))

  (** val compare : z -> z -> comparison **)

  let compare x y =
    match x with
    | Z0 -> (match y with
             | Z0 -> Eq
             | Zpos _ -> Lt
             | Zneg _ -> Gt)
    | Zpos x' -> (match y with
                  | Zpos y' -> Coq_Pos.compare x' y'
                  | _ -> Gt)
    | Zneg x' ->
      (match y with
       | Zneg y' -> compOpp (Coq_Pos.compare x' y')
       | _ -> Lt)

  (** val leb : z -> z -> bool **)

  let leb x y =
    match compare x y with
    | Gt -> false
    | _ -> true

  (** val ltb : z -> z -> bool **)

  let ltb x y =
    match compare x y with
    | Lt -> true
    | _ -> false

  (** val eqb : z -> z -> bool **)

  let eqb x y =
    match x with
    | Z0 -> (match y with
             | Z0 -> true
             | _ -> false)
    | Zpos p -> (match y with
                 | Zpos q -> Coq_Pos.eqb p q
                 | _ -> false)
    | Zneg p -> (match y with
                 | Zneg q -> Coq_Pos.eqb p q
                 | _ -> false)

  (** val max : z -> z -> z **)

  let max n0 m =
    match compare n0 m with
    | Lt -> m
    | _ -> n0

  (** val to_nat : z -> nat **)

  let to_nat = function
  | Zpos p -> Coq_Pos.to_nat p
  | _ -> O

  (** val to_N : z -> n **)

  let to_N = function
  | Zpos p -> Npos p
  | _ -> N0

  (** val of_nat : nat -> z **)

  let of_nat = function
  | O -> Z0
  | S n1 -> Zpos (Coq_Pos.of_succ_nat n1)

  (** val of_N : n -> z **)

  let of_N = function
  | N0 -> Z0
  | Npos p -> Zpos p

  (** val pos_div_eucl : positive -> z -> z * z **)

  let rec pos_div_eucl a b =
    match a with
    | XI a' ->
      let (q, r) = pos_div_eucl a' b in
      let r' = add (mul (Zpos (XO XH)) r) (Zpos XH) in
      if ltb r' b
      then ((mul (Zpos (XO XH)) q), r')
      else ((add (mul (Zpos (XO XH)) q) (Zpos XH)), (sub r' b))
    | XO a' ->
      let (q, r) = pos_div_eucl a' b in
      let r' = mul (Zpos (XO XH)) r in
      if ltb r' b
      then ((mul (Zpos (XO XH)) q), r')
      else ((add (mul (Zpos (XO XH)) q) (Zpos XH)), (sub r' b))
    | XH -> if leb (Zpos (XO XH)) b then (Z0, (Zpos XH)) else ((Zpos XH), Z0)

  (** val div_eucl : z -> z -> z * z **)

  let div_eucl a b =
    match a with
    | Z0 -> (Z0, Z0)
    | Zpos a' ->
      (match b with
       | Z0 -> (Z0, a)
       | Zpos _ -> pos_div_eucl a' b
       | Zneg b' ->
         let (q, r) = pos_div_eucl a' (Zpos b') in
         (match r with
          | Z0 -> ((opp q), Z0)
          | _ -> ((opp (add q (Zpos XH))), (add b r))))
    | Zneg a' ->
      (match b with
       | Z0 -> (Z0, a)
       | Zpos _ ->
         let (q, r) = pos_div_eucl a' b in
         (match r with
          | Z0 -> ((opp q), Z0)
          | _ -> ((opp (add q (Zpos XH))), (sub b r)))
       | Zneg b' -> let (q, r) = pos_div_eucl a' (Zpos b') in (q, (opp r)))

  (** val div : z -> z -> z **)

  let div a b =
    let (q, _) = div_eucl a b in q

  (** val modulo : z -> z -> z **)

  let modulo a b =
    let (_, r) = div_eucl a b in r

  (** val quotrem : z -> z -> z * z **)

  let quotrem a b =
    match a with
    | Z0 -> (Z0, Z0)
    | Zpos a0 ->
      (match b with
       | Z0 -> (Z0, a)
       | Zpos b0 ->
         let (q, r) = N.pos_div_eucl a0 (Npos b0) in ((of_N q), (of_N r))
       | Zneg b0 ->
         let (q, r) = N.pos_div_eucl a0 (Npos b0) in
         ((opp (of_N q)), (of_N r)))
    | Zneg a0 ->
      (match b with
       | Z0 -> (Z0, a)
       | Zpos b0 ->
         let (q, r) = N.pos_div_eucl a0 (Npos b0) in
         ((opp (of_N q)), (opp (of_N r)))
       | Zneg b0 ->
         let (q, r) = N.pos_div_eucl a0 (Npos b0) in
         ((of_N q), (opp (of_N r))))

  (** val rem : z -> z -> z **)

  let rem a b =
    snd (quotrem a b)
 end

(** val shard_skip : z -> z -> z -> bool **)

let shard_skip shard total id =
  if Z.ltb (Zpos XH) total
  then negb (Z.eqb (Z.modulo id total) (Z.sub shard (Zpos XH)))
  else false

(** val shard_skip_trunc : z -> z -> z -> bool **)

let shard_skip_trunc shard total id =
  if Z.ltb (Zpos XH) total
  then negb (Z.eqb (Z.rem id total) (Z.sub shard (Zpos XH)))
  else false

(** val handlers_upto : nat -> z -> z -> z list **)

let rec handlers_upto n0 total id =
  match n0 with
  | O -> []
  | S k ->
    app (handlers_upto k total id)
      (if shard_skip (Z.of_nat n0) total id then [] else (Z.of_nat n0) :: [])

(** val shardset : z -> z -> z list **)

let shardset total id =
  handlers_upto (Z.to_nat (Z.max total (Zpos XH))) total id

(** val shardset_ok : z list -> bool **)

let shardset_ok obs =
  Nat.eqb (length obs) (S O)
