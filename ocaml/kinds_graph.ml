(* graph builder kinds *)
open Wfmodel
open Conv

let parse_call (s:ostring) : (z * z list) =
  match String.split_on_char ':' s with
  | [_k; f; ts] -> (z_of_string f, if ts = "" then [] else List.map z_of_string (String.split_on_char ',' ts))
  | _ -> failwith "call"

let join_z l = String.concat "," (List.map string_of_z l)
let sb = string_of_bool
let probes0 = List.init 12 (fun i -> z_of_int (i - 1))
(* -1..10, then every node named in the calls (source, then its destinations, in call order) not yet listed *)
let probes_of (cs : (z * z list) list) =
  List.fold_left (fun acc (f, ts) -> List.fold_left (fun acc n -> if List.mem n acc then acc else acc @ [n]) acc (f :: ts)) probes0 cs

let register (reg : ostring -> (ostring list -> ostring list) -> (ostring list -> ostring list -> ostring option) -> unit) =
  let graph a =
    let cs = List.map parse_call a in
    let g = build cs in
    match default_start g with
    | None -> ["nostart"]
    | Some s ->
      List.map (fun n -> Printf.sprintf "%s:%s:%s:%s" (string_of_z n) (sb (is_valid g n)) (sb (is_terminal g n)) (join_z (transitions g n))) (probes_of cs)
      @ ["start=" ^ string_of_z s; "S=" ^ join_z (starting_nodes g); "T=" ^ join_z (terminal_nodes g)] in
  let graph_mon a obs =
    let es = edges_of (List.map parse_call a) in
    match obs with
    | ["nostart"] -> if graph_start_ok es None then None else Some "Build found no starting point although one is declared"
    | _ ->
      let bad = ref None in
      List.iter (fun tok ->
        if !bad = None then begin
          if String.length tok > 6 && String.sub tok 0 6 = "start=" then begin
            let s = z_of_string (String.sub tok 6 (String.length tok - 6)) in
            if not (graph_start_ok es (Some s)) then bad := Some "default starting point is not the first declared source that is nobody's destination"
          end else if String.length tok > 1 && (tok.[0] = 'S' || tok.[0] = 'T') && tok.[1] = '=' then ()
          else match String.split_on_char ':' tok with
            | [n; v; t; ts] ->
              let ts = if ts = "" then [] else List.map z_of_string (String.split_on_char ',' ts) in
              if not (graph_node_ok es (z_of_string n) (bool_of_string v) (bool_of_string t) ts) then
                bad := Some ("node " ^ n ^ ": valid/terminal/transitions differ from the declared edges")
            | _ -> bad := Some "unparsable"
        end) obs;
      !bad in
  reg "graph" graph graph_mon;
  let validate a = (match a with
    | cur :: next :: calls -> [sb (validate_transition (build (List.map parse_call calls)) (z_of_string cur) (z_of_string next))]
    | _ -> failwith "arity") in
  reg "validate" validate
    (fun a obs -> match a, obs with
       | cur :: next :: calls, [o] ->
         let es = edges_of (List.map parse_call calls) in
         let decl = List.exists (fun (f, t) -> f = z_of_string cur && t = z_of_string next) es in
         if bool_of_string o = decl then None
         else Some (if decl then "declared transition rejected" else "undeclared transition accepted")
       | _ -> Some "unparsable")
