
val negb : bool -> bool

type nat =
| O
| S of nat

val snd : ('a1 * 'a2) -> 'a2

val length : 'a1 list -> nat

val app : 'a1 list -> 'a1 list -> 'a1 list

type comparison =
| Eq
| Lt
| Gt

val compOpp : comparison -> comparison

val add : nat -> nat -> nat

module Nat :
 sig
  val eqb : nat -> nat -> bool
 end

type positive =
| XI of positive
| XO of positive
| XH

type n =
| N0
| Npos of positive

type z =
| Z0
| Zpos of positive
| Zneg of positive

module Pos :
 sig
  type mask =
  | IsNul
  | IsPos of positive
  | IsNeg
 end

module Coq_Pos :
 sig
  val succ : positive -> positive

  val add : positive -> positive -> positive

  val add_carry : positive -> positive -> positive

  val pred_double : positive -> positive

  type mask = Pos.mask =
  | IsNul
  | IsPos of positive
  | IsNeg

  val succ_double_mask : mask -> mask

  val double_mask : mask -> mask

  val double_pred_mask : positive -> mask

  val sub_mask : positive -> positive -> mask

  val sub_mask_carry : positive -> positive -> mask

  val mul : positive -> positive -> positive

  val compare_cont : comparison -> positive -> positive -> comparison

  val compare : positive -> positive -> comparison

  val eqb : positive -> positive -> bool

  val iter_op : ('a1 -> 'a1 -> 'a1) -> positive -> 'a1 -> 'a1

  val to_nat : positive -> nat

  val of_succ_nat : nat -> positive
 end

module N :
 sig
  val succ_double : n -> n

  val double : n -> n

  val add : n -> n -> n

  val sub : n -> n -> n

  val compare : n -> n -> comparison

  val eqb : n -> n -> bool

  val leb : n -> n -> bool

  val pos_div_eucl : positive -> n -> n * n

  val to_nat : n -> nat

  val of_nat : nat -> n
 end

module Z :
 sig
  val double : z -> z

  val succ_double : z -> z

  val pred_double : z -> z

  val pos_sub : positive -> positive -> z

  val add : z -> z -> z

  val opp : z -> z

  val sub : z -> z -> z

  val mul : z -> z -> z

  val compare : z -> z -> comparison

  val leb : z -> z -> bool

  val ltb : z -> z -> bool

  val eqb : z -> z -> bool

  val max : z -> z -> z

  val to_nat : z -> nat

  val to_N : z -> n

  val of_nat : nat -> z

  val of_N : n -> z

  val pos_div_eucl : positive -> z -> z * z

  val div_eucl : z -> z -> z * z

  val div : z -> z -> z

  val modulo : z -> z -> z

  val quotrem : z -> z -> z * z

  val rem : z -> z -> z
 end

val shard_skip : z -> z -> z -> bool

val shard_skip_trunc : z -> z -> z -> bool

val handlers_upto : nat -> z -> z -> z list

val shardset : z -> z -> z list

val shardset_ok : z list -> bool
