(* engine scenarios: parsing of "program -- ops" *)
open Wfmodel
open Conv

let zi = z_of_int
let ios = int_of_string
let split c s = String.split_on_char c s
let ints s = if s = "" then [] else List.map (fun x -> zi (ios x)) (split ',' s)

let rec parse_beh (t : ostring list) : beh * ostring list =
  match t with
  | "R" :: m :: z :: r -> (BRet (m = "1", zi (ios z)), r)
  | "E" :: m :: z :: r -> (BErr (m = "1", zi (ios z)), r)
  | "G" :: m :: z :: e :: r -> (BErrZ (m = "1", zi (ios z), zi (ios e)), r)
  | "P" :: m :: r -> (BPause (m = "1"), r)
  | "X" :: m :: r -> (BCancel (m = "1"), r)
  | "Y" :: _ :: z :: r -> (BRet (false, zi (ios z)), r)   (* engx scenarios only (no model run): the graph and the units are all that is read *)
  | "F" :: k :: e :: r -> let (b, r') = parse_beh r in (BFailFirst (nat_of_int (ios k), zi (ios e), b), r')
  | "B" :: r -> let (b1, r1) = parse_beh r in let (b2, r2) = parse_beh r1 in (BBranch (b1, b2), r2)
  | _ -> failwith "beh"
let beh_of s = fst (parse_beh (split ',' s))

let rs_of_int i = match rs_of_code (zi i) with Some s -> s | None -> failwith "runstate"

let parse_cfg (items : ostring list) : econfig =
  let steps = ref [] and cbs = ref [] and tos = ref [] and hooks = ref [] and del = ref 0 and scheds = ref [] and conns = ref [] in
  let opt = Hashtbl.create 8 in
  List.iter (fun (k, v) -> Hashtbl.replace opt k v) ["dpar", 0; "dpause", 0; "retry", -1; "lim", 1000; "bo", 0; "inst", 1; "stamp", 0];
  List.iter (fun it ->
    match split ':' it with
    | ["S"; s; b; d; par; pause; lag] ->
      steps := { sc_status = zi (ios s); sc_beh = beh_of b; sc_dests = ints d; sc_par = zi (ios par); sc_pause = zi (ios pause); sc_lag = zi (ios lag) } :: !steps
    | ["C"; s; b; d] -> cbs := { cb_status = zi (ios s); cb_beh = beh_of b; cb_dests = ints d } :: !cbs
    | ["T"; s; dur; b; d; pause] ->
      tos := { to_status = zi (ios s); to_dur = zi (ios dur); to_beh = beh_of b; to_dests = ints d; to_pause = zi (ios pause) } :: !tos
    | ["H"; st; k] -> hooks := (rs_of_int (ios st), nat_of_int (ios k)) :: !hooks
    | ["K"; cid; k; par] -> conns := { cn_id = n_of_int (ios cid); cn_fail = nat_of_int (ios k); cn_par = zi (ios par) } :: !conns
    | ["D"; m] -> del := ios m
    | ["Z"; fid; spec; seed; filt] -> scheds := { sd_fid = n_of_int (ios fid); sd_spec = zi (ios spec); sd_seed = zi (ios seed); sd_filter = zi (ios filt) } :: !scheds
    | ["O"; kvs] -> List.iter (fun kv -> match split '=' kv with [k; v] -> Hashtbl.replace opt k (ios v) | _ -> failwith "opt") (split ',' kvs)
    | _ -> failwith ("program item " ^ it)) items;
  let o k = zi (Hashtbl.find opt k) in
  { ec_steps = List.rev !steps; ec_cbs = List.rev !cbs; ec_tos = List.rev !tos; ec_hooks = List.rev !hooks; ec_scheds = List.rev !scheds; ec_conns = List.rev !conns; ec_del = zi !del;
    ec_dpar = o "dpar"; ec_dpause = o "dpause"; ec_retry = o "retry"; ec_limit = o "lim"; ec_backoff = o "bo"; ec_inst = o "inst";
    ec_stamp = (Hashtbl.find opt "stamp" <> 0) }

let unit_of (u : ostring) : eunit =
  let rest = String.sub u 1 (String.length u - 1) in
  match u.[0] with
  | 'o' -> EOutbox | 'd' -> EDelete | 'r' -> ERetry
  | 'c' -> ESched (n_of_int (ios rest))
  | 'h' -> EHook (rs_of_int (ios rest))
  | 'p' -> EPoller (zi (ios rest))
  | 'i' -> EInserter (zi (ios rest))
  | 's' -> (match split '.' rest with [s; i; n] -> EStep (zi (ios s), zi (ios i), zi (ios n)) | _ -> failwith "unit")
  | 'k' -> (match split '.' rest with [cid; i; n] -> EConn (n_of_int (ios cid), zi (ios i), zi (ios n)) | _ -> failwith "unit")
  | _ -> failwith ("unit " ^ u)

let kind_of = function
  | "AW" -> KAW | "NR" -> KNR | "RV" -> KRV | "AK" -> KAK | "CL" -> KCL | "LK" -> KLK | "LT" -> KLT | "ST" -> KST
  | "LO" -> KLO | "NS" -> KNS | "SD" -> KSD | "SC" -> KSC | "DO" -> KDO | "TL" -> KTL | "TC" -> KTC | "TM" -> KTM
  | "TX" -> KTX | "TW" -> KTW | k -> failwith ("kind " ^ k)
let kind_str = function
  | KAW -> "AW" | KNR -> "NR" | KRV -> "RV" | KAK -> "AK" | KCL -> "CL" | KLK -> "LK" | KLT -> "LT" | KST -> "ST"
  | KLO -> "LO" | KNS -> "NS" | KSD -> "SD" | KSC -> "SC" | KDO -> "DO" | KTL -> "TL" | KTC -> "TC" | KTM -> "TM"
  | KTX -> "TX" | KTW -> "TW"

let parse_plan (parts : ostring list) : ((ckind * nat) * fault) list =
  List.map (fun p -> match split '.' p with
    | [k; occ; f] -> ((kind_of k, nat_of_int (ios occ)),
                      (match f with "eb" -> FErrBefore | "ea" -> FErrAfter | "ll" -> FLease | "cr" -> FCrash | "sr" -> FStale | _ -> failwith "fault"))
    | _ -> failwith "plan") parts

let ctlop_of = function 0 -> OpPause | 1 -> OpResume | 2 -> OpCancel | _ -> OpDeleteData

let parse_op (op : ostring) : eop =
  match split '@' op with
  | [] -> failwith "op"
  | head :: faults ->
    let plan = parse_plan faults in
    (match split ':' head with
     | ["tr"; fid; start; seed] -> OTrigger (n_of_int (ios fid), zi (ios start), zi (ios seed), plan)
     | ["cb"; fid; status] -> OCallback (n_of_int (ios fid), zi (ios status), plan)
     | ["ct"; run; o] | ["ctr"; run; o] -> OCtl (n_of_int (ios run), ctlop_of (ios o), false, plan)
     | ["ui"; run; o] -> OCtl (n_of_int (ios run), ctlop_of (ios o), true, plan)
     | ["adv"; d] -> OAdvance (zi (ios d))
     | ["st"; pu] -> (match split '/' pu with [i; u] -> OStep (zi (ios i), unit_of u, plan) | _ -> failwith "st")
     | ["crash"; i] -> OCrash (zi (ios i))
     | ["sched"; i; fid] -> OSched (zi (ios i), n_of_int (ios fid), true)
     | ["schedbad"; i; fid] -> OSched (zi (ios i), n_of_int (ios fid), false)
     | ["lose"; pu] -> (match split '/' pu with [i; u] -> OLose (zi (ios i), unit_of u) | _ -> failwith "lose")
     | ["rw"; u; pos] -> ORewind (unit_of u, nat_of_int (ios pos))
     | ["dup"; i] -> ODup (nat_of_int (ios i))
     | ["cs"; cid; hexid; fid] ->
       (* the event ID the engine derives from the connector event's ID string: int64(fnv64(ID)), by the Coq model of FNV-1 *)
       let sid = string_of_hex hexid in
       let bytes = List.init (String.length sid) (fun i -> n_of_int (Char.code sid.[i])) in
       OConnSend (n_of_int (ios cid), conn_event_id bytes, n_of_int (ios fid))
     | _ -> failwith ("op " ^ op))

