(* coqprint.ml — prints parsed engine scenarios (extracted types) as Coq terms, for the in-Coq re-evaluation of sampled
   scenarios (thorough tier: validates the extraction step). Hand-written glue. *)
open Wfmodel
open Conv

let pz z = "(" ^ string_of_z z ^ ")%Z"
let pn n = string_of_n n ^ "%N"
let pnat n = string_of_int (int_of_nat n) ^ "%nat"
let pb b = if b then "true" else "false"
let plist f l = "[" ^ String.concat "; " (List.map f l) ^ "]"

let rec pbeh = function
  | BRet (m, z) -> Printf.sprintf "(BRet %s %s)" (pb m) (pz z)
  | BErr (m, e) -> Printf.sprintf "(BErr %s %s)" (pb m) (pz e)
  | BErrZ (m, z, e) -> Printf.sprintf "(BErrZ %s %s %s)" (pb m) (pz z) (pz e)
  | BPause m -> Printf.sprintf "(BPause %s)" (pb m)
  | BCancel m -> Printf.sprintf "(BCancel %s)" (pb m)
  | BFailFirst (k, e, b) -> Printf.sprintf "(BFailFirst %s %s %s)" (pnat k) (pz e) (pbeh b)
  | BBranch (a, b) -> Printf.sprintf "(BBranch %s %s)" (pbeh a) (pbeh b)

let prs = function
  | RSUnknown -> "RSUnknown" | RSInitiated -> "RSInitiated" | RSRunning -> "RSRunning" | RSPaused -> "RSPaused"
  | RSCancelled -> "RSCancelled" | RSCompleted -> "RSCompleted" | RSDataDeleted -> "RSDataDeleted" | RSReqDataDeleted -> "RSReqDataDeleted"

let pcfg (c : econfig) : ostring =
  let step s = Printf.sprintf "(mkStep %s %s %s %s %s %s)" (pz s.sc_status) (pbeh s.sc_beh) (plist pz s.sc_dests) (pz s.sc_par) (pz s.sc_pause) (pz s.sc_lag) in
  let cb s = Printf.sprintf "(mkCb %s %s %s)" (pz s.cb_status) (pbeh s.cb_beh) (plist pz s.cb_dests) in
  let to_ s = Printf.sprintf "(mkTo %s %s %s %s %s)" (pz s.to_status) (pz s.to_dur) (pbeh s.to_beh) (plist pz s.to_dests) (pz s.to_pause) in
  let hook (st, k) = Printf.sprintf "(%s, %s)" (prs st) (pnat k) in
  let conn s = Printf.sprintf "(mkConn %s %s %s)" (pn s.cn_id) (pnat s.cn_fail) (pz s.cn_par) in
  let sched s = Printf.sprintf "(mkSched %s %s %s %s)" (pn s.sd_fid) (pz s.sd_spec) (pz s.sd_seed) (pz s.sd_filter) in
  Printf.sprintf "(mkEcfg %s %s %s %s %s %s %s %s %s %s %s %s %s %s)"
    (plist step c.ec_steps) (plist cb c.ec_cbs) (plist to_ c.ec_tos) (plist hook c.ec_hooks) (plist sched c.ec_scheds) (plist conn c.ec_conns)
    (pz c.ec_del) (pz c.ec_dpar) (pz c.ec_dpause) (pz c.ec_retry) (pz c.ec_limit) (pz c.ec_backoff) (pz c.ec_inst) (pb c.ec_stamp)

let pkind k = "K" ^ Engparse.kind_str k
let pfault = function FNone -> "FNone" | FErrBefore -> "FErrBefore" | FErrAfter -> "FErrAfter" | FLease -> "FLease" | FCrash -> "FCrash" | FStale -> "FStale"
let pplan pl = plist (fun ((k, occ), f) -> Printf.sprintf "(%s, %s, %s)" (pkind k) (pnat occ) (pfault f)) pl
let punit = function
  | EOutbox -> "EOutbox" | EDelete -> "EDelete" | ERetry -> "ERetry"
  | EStep (s, i, n) -> Printf.sprintf "(EStep %s %s %s)" (pz s) (pz i) (pz n)
  | EPoller s -> Printf.sprintf "(EPoller %s)" (pz s)
  | EInserter s -> Printf.sprintf "(EInserter %s)" (pz s)
  | EHook st -> Printf.sprintf "(EHook %s)" (prs st)
  | ESched f -> Printf.sprintf "(ESched %s)" (pn f)
  | EConn (cid, i, n) -> Printf.sprintf "(EConn %s %s %s)" (pn cid) (pz i) (pz n)
let pctl = function OpPause -> "OpPause" | OpResume -> "OpResume" | OpCancel -> "OpCancel" | OpDeleteData -> "OpDeleteData"
let pop = function
  | OTrigger (f, st, sd, pl) -> Printf.sprintf "(OTrigger %s %s %s %s)" (pn f) (pz st) (pz sd) (pplan pl)
  | OCallback (f, st, pl) -> Printf.sprintf "(OCallback %s %s %s)" (pn f) (pz st) (pplan pl)
  | OCtl (r, o, ui, pl) -> Printf.sprintf "(OCtl %s %s %s %s)" (pn r) (pctl o) (pb ui) (pplan pl)
  | OAdvance d -> Printf.sprintf "(OAdvance %s)" (pz d)
  | OStep (i, u, pl) -> Printf.sprintf "(OStep %s %s %s)" (pz i) (punit u) (pplan pl)
  | OCrash i -> Printf.sprintf "(OCrash %s)" (pz i)
  | OSched (i, f, v) -> Printf.sprintf "(OSched %s %s %s)" (pz i) (pn f) (pb v)
  | OLose (i, u) -> Printf.sprintf "(OLose %s %s)" (pz i) (punit u)
  | ORewind (u, p) -> Printf.sprintf "(ORewind %s %s)" (punit u) (pnat p)
  | ODup i -> Printf.sprintf "(ODup %s)" (pnat i)
  | OConnSend (cid, id, fid) -> Printf.sprintf "(OConnSend %s %s %s)" (pn cid) (pz id) (pn fid)

(* sample every k-th engine case of a case file; return (index, cfg, ops) *)
let sample (file : ostring) (n : int) =
  let ic = open_in file in
  let lines = ref [] in
  (try while true do
       let l = input_line ic in
       if String.length l > 4 && String.sub l 0 4 = "eng " then lines := l :: !lines
     done with End_of_file -> ());
  close_in ic;
  let all = Array.of_list (List.rev !lines) in
  let total = Array.length all in
  let step = max 1 (total / (max 1 n)) in
  let out = ref [] in
  let i = ref 0 in
  while !i < total && List.length !out < n do
    let line = all.(!i) in
    let lhs = (match String.index_opt line '|' with Some j -> String.sub line 0 j | None -> line) in
    let args = List.tl (List.filter (fun x -> x <> "") (String.split_on_char ' ' lhs)) in
    let (items, ops) = Kinds_engine.split_case args in
    (try out := (!i, Engparse.parse_cfg items, List.map Engparse.parse_op ops) :: !out with _ -> ());
    i := !i + step
  done;
  List.rev !out

let emit_coq (file : ostring) (n : int) =
  print_endline "From WF Require Import model.Base model.RunState model.EngineBase model.Engine model.Digest.";
  print_endline "Open Scope Z_scope.";
  List.iter (fun (i, cfg, ops) ->
    Printf.printf "Definition d%d := Eval vm_compute in scenario_digest %s %s.\nPrint d%d.\n" i (pcfg cfg) (plist pop ops) i) (sample file n)

let emit_digests (file : ostring) (n : int) =
  List.iter (fun (i, cfg, ops) -> Printf.printf "d%d %s\n" i (string_of_z (scenario_digest cfg ops))) (sample file n)
