(* further kinds are registered here as the model grows *)
open Wfmodel
open Conv
let register (reg : string -> (string list -> string list) -> (string list -> string list -> string option) -> unit) = ()
