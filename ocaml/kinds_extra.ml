(* kinds of the pure / table families *)
open Wfmodel
open Conv

let zs l = List.map z_of_string l
let pzs l = List.map string_of_z l
let sb = string_of_bool
let arity () = failwith "arity"

let rs_of_int_string s = rs_of_code (z_of_string s)
let ctlop_of s = match s with "0" -> OpPause | "1" -> OpResume | "2" -> OpCancel | "3" -> OpDeleteData | _ -> failwith "ctlop"

let dummy_record st = { r_wf = N0; r_fid = N0; r_run = N0; r_state = st; r_status = z_of_int 3; r_obj = ODeleted;
                        r_created = Z0; r_updated = Z0; r_ver = z_of_int 5; r_reason = N0; r_desc = Z0 }

(* controller observation: "accepted nstores [state version status]" *)
let ctl_model a =
  match a with
  | [st; op] ->
    (match rs_of_int_string st with
     | None -> ["0"; "0"]
     | Some s ->
       (match ctl_update (dummy_record s) (ctl_target (ctlop_of op)) N0 with
        | None -> ["0"; "0"]
        | Some r -> ["1"; "1"; string_of_z (rs_code r.r_state); string_of_z r.r_ver; string_of_z r.r_status]))
  | _ -> arity ()

(* monitor: accepted <=> documented; rejected => no store; accepted => exactly one store of the target state, version+1, same status *)
let ctl_monitor a obs =
  match a, obs with
  | [st; op], (acc :: n :: rest) ->
    let doc = (match rs_of_int_string st with None -> false | Some s -> ctl_documented s (ctlop_of op)) in
    let acc = bool_of_string acc in
    if acc <> doc then Some (if acc then "control operation accepted in a state that does not allow it" else "control operation rejected in a state that allows it")
    else if not acc && n <> "0" then Some "rejected control operation wrote a record"
    else if acc && (n <> "1" || rest <> [string_of_z (rs_code (ctl_target (ctlop_of op))); "6"; "3"]) then Some "accepted control operation did not store exactly the target state with version+1"
    else None
  | _ -> Some "unparsable"

let register (reg : ostring -> (ostring list -> ostring list) -> (ostring list -> ostring list -> ostring option) -> unit) =
  let equal_monitor model args obs =
    let m = String.concat " " (model args) in
    if m = String.concat " " obs then None else Some ("property fixes the answer [" ^ m ^ "]") in
  let rstable a = (match a with [f; t] -> [sb (rs_table_code (z_of_string f) (z_of_string t))] | _ -> arity ()) in
  reg "rstable" rstable (equal_monitor rstable);
  (* connector event round trip: the generic event's ID is int64(fnv64(ID)); every field comes back intact *)
  let bytes_of h = let s = string_of_hex h in List.init (String.length s) (fun i -> n_of_int (Char.code s.[i])) in
  let crt a = (match a with
    | id :: fid :: typ :: created :: _zone :: nh :: rest ->
      let rec pairs = function k :: v :: t -> (k ^ "=" ^ v) :: pairs t | _ -> [] in
      ignore nh;
      [string_of_z (conn_event_id (bytes_of id)); fid; created;
       "id=" ^ id; "fid=" ^ fid; "type=" ^ typ; "at=" ^ created; "h=" ^ String.concat "," (pairs rest)]
    | _ -> arity ()) in
  reg "crt" crt (equal_monitor crt);
  let crts a = List.map (fun id -> string_of_z (conn_event_id (bytes_of id))) a in
  reg "crts" crts (equal_monitor crts);
  (* twowf: two workflows on shared in-memory adapters. What each does ALONE is what the engine theorems say of one workflow
     (every run of a failing-then-succeeding linear program completes — C01; every entry into a hooked state has its hook run
     to success — C14); sharing the adapters must not change it: all runs complete, all hooks succeed, for both *)
  let twowf a = (match a with
    | [runs; _sf; _hf; pause; timeout] ->
      let p = if pause = "1" && timeout <> "1" then runs else "0" in
      List.map (fun n -> Printf.sprintf "%s:%s/%s:%s:%s" n runs runs p runs) ["orders"; "payments"]
    | [runs; _sf; _hf; pause; timeout; del] ->
      (* C15: every accepted deletion request is served (the delete function is retried until it succeeds): all runs end
         DataDeleted, scrubbed by the custom function *)
      let p = if pause = "1" && timeout <> "1" then runs else "0" in
      List.map (fun n -> if del = "0" then Printf.sprintf "%s:%s/%s:%s:%s" n runs runs p runs
                         else Printf.sprintf "%s:%s/%s:%s:%s:%s" n runs runs p runs runs) ["orders"; "payments"]
    | _ -> failwith "twowf arity") in
  reg "twowf" twowf (equal_monitor twowf);
  reg "ctl" ctl_model ctl_monitor;
  reg "webui" ctl_model ctl_monitor;
  (* routing grid *)
  let route a = (match a with
    | [st; status; ver; name] ->
      let wf = unhx name and st = z_of_string st and status = z_of_string status and ver = z_of_string ver in
      let fid = coq_of_string "fid 1" and run = coq_of_string "run-1" in
      let hdrs = route_headers wf fid run st status ver in
      let get k = (try hx (List.assoc (coq_of_string k) hdrs) with Not_found -> "MISSING") in
      let keys = List.sort compare (List.map (fun (k, _) -> string_of_coq k) hdrs) in
      [hx wf; hx run; string_of_z (route_type status); get "topic"; get "workflow_name"; get "foreign_id"; get "run_id";
       get "run_state"; get "record_version"; hex_of_string (String.concat "," keys)]
    | _ -> arity ()) in
  reg "route" route (equal_monitor route);
  let topics a = (match a with
    | [name; s1; s2] ->
      let (((a1, a2), a3), a4) = topics_coincide (unhx name) (z_of_string s1) (z_of_string s2) in [sb a1; sb a2; sb a3; sb a4]
    | _ -> arity ()) in
  reg "topics" topics
    (fun a obs -> match a, obs with
       | [_; s1; s2], [c12; cd; cr; dr] ->
         if s1 <> s2 && c12 = "1" then Some "topics of two different statuses coincide"
         else if s1 = s2 && c12 = "0" then Some "topic is not a function of (name, status)"
         else if cd = "1" || cr = "1" || dr = "1" then Some "status / delete / run-state-change topics coincide"
         else None
       | _ -> Some "unparsable");
  (* error counter *)
  let counter ops =
    let key s = (match String.split_on_char '.' s with
      | [e; p; r] -> ((n_of_string e, n_of_string p), n_of_string r) | _ -> failwith "key") in
    let c = ref [] and res = ref [] in
    List.iter (fun op ->
      let k = key (String.sub op 1 (String.length op - 1)) in
      if op.[0] = 'a' then begin let (c', n) = c_add !c k in c := c'; res := string_of_int (int_of_nat n) :: !res end
      else c := c_clear !c k) ops;
    List.rev !res in
  reg "counter" counter (equal_monitor counter)
