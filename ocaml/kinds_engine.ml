(* engine scenarios: run the extracted interpreter, print / project traces *)
open Wfmodel
open Conv
open Engparse

(* ---- printing ---- *)
let sz = string_of_z
let ares_str = function ROk -> "ok" | RErr -> "err" | RErrAfter -> "erra" | RCancel -> "can" | RNotFound -> "nf" | RBlocked -> "blk"
let obj_str = function
  | ODeleted -> "D"
  | OVal (s, t) -> "s" ^ sz s ^ "t" ^ String.concat "_" (List.map sz t)
(* record printing modes: 0 = full, 1 = core (no times, no description), 2 = routing (run.state.status.ver), 3 = core + updated *)
let recmode = ref 0
let rec_str (r : record) =
  match !recmode with
  | 0 -> Printf.sprintf "%s.%s.%s.%s.%s.%s.%s.%s.%s" (string_of_n r.r_run) (sz (rs_code r.r_state)) (sz r.r_status) (sz r.r_ver)
           (obj_str r.r_obj) (sz r.r_created) (sz r.r_updated) (if r.r_desc = z_of_int (-999999) then "?" else sz r.r_desc) (string_of_n r.r_fid)
  | 1 -> Printf.sprintf "%s.%s.%s.%s.%s" (string_of_n r.r_run) (sz (rs_code r.r_state)) (sz r.r_status) (sz r.r_ver) (obj_str r.r_obj)
  | 2 -> Printf.sprintf "%s.%s.%s.%s" (string_of_n r.r_run) (sz (rs_code r.r_state)) (sz r.r_status) (sz r.r_ver)
  | _ -> Printf.sprintf "%s.%s.%s.%s.%s.%s" (string_of_n r.r_run) (sz (rs_code r.r_state)) (sz r.r_status) (sz r.r_ver) (obj_str r.r_obj) (sz r.r_updated)
let orec_str = function None -> "-" | Some r -> rec_str r
let topic_tok = function TStatus s -> "s" ^ sz s | TDelete -> "d" | TRunStateChange -> "r" | TConn c -> "k" ^ string_of_n c
let hdr_str t run fid typ st ver = Printf.sprintf "%s.%s.%s.%s.%s.%s" (topic_tok t) (string_of_n run) (string_of_n fid) (sz typ) (sz st) (sz ver)
let event_str (e : event) = Printf.sprintf "%s.%s.%s" (sz e.e_id) (hdr_str e.e_topic e.e_run e.e_fid e.e_type e.e_state e.e_ver) (sz e.e_created)
let uret_str = function
  | URet z -> "r" ^ sz z | UErr e -> "e" ^ sz e | UTime None -> "t-" | UTime (Some t) -> "t" ^ sz t
  | UOk -> "ok" | UPauseA -> "pause" | UCancelA -> "cancel"
let ufun_code_str u = sz (ufun_code u)
let zl l = String.concat "," (List.map sz l)

let tok_str (t : tok) : ostring =
  match t with
  | TOp n -> "#" ^ string_of_int (int_of_nat n)
  | TCall (k, args, r, out) -> Printf.sprintf "%s:%s=%s:%s" (kind_str k) (zl args) (ares_str r) (zl out)
  | TLookup (k, key, r, rc) -> Printf.sprintf "%s:%s=%s:%s" (kind_str k) (sz key) (ares_str r) (orec_str rc)
  | TStore (prev, r, a) -> Printf.sprintf "ST:%s/%s=%s" (orec_str prev) (rec_str r) (ares_str a)
  | TUser (u, view, pers, now, planned) -> Printf.sprintf "US:%s:%s/%s@%s=%s" (ufun_code_str u) (rec_str view) (orec_str pers) (sz now) (uret_str planned)
  | TRecv e -> "RV=" ^ event_str e
  | TAck (e, a) -> Printf.sprintf "AK:%s=%s" (sz e.e_id) (ares_str a)
  | TSend (o, a) -> Printf.sprintf "SD:%s=%s" (hdr_str o.o_topic o.o_run o.o_fid o.o_type o.o_state o.o_ver) (ares_str a)
  | TDelOut (id, a) -> Printf.sprintf "DO:%s=%s" (string_of_n id) (ares_str a)
  | TTCreate (run, status, ex, a) -> Printf.sprintf "TC:%s.%s.%s=%s" (string_of_n run) (sz status) (sz ex) (ares_str a)
  | TTEnd (k, id, a) -> Printf.sprintf "%s:%s=%s" (kind_str k) (sz id) (ares_str a)
  | TApi code -> "API=" ^ sz code

let split_case (a : ostring list) =
  let rec go acc = function
    | "--" :: rest -> (List.rev acc, rest)
    | x :: rest -> go (x :: acc) rest
    | [] -> (List.rev acc, []) in
  go [] a

(* per-property projection of a trace: which tokens are compared, and how records are printed *)
let prop = try Sys.getenv "VERIF_PROP" with Not_found -> ""
let is_step_fn = function UFStep _ | UFCallback _ | UFTimeout _ -> true | _ -> false
let keep (t : tok) : bool =
  match prop, t with
  | _, TOp _ -> true
  | "", _ -> true
  | "C01", (TStore _ | TApi _) -> true
  | "C01", TUser (u, _, _, _, _) -> is_step_fn u
  | "C02", (TStore _ | TApi _ | TUser _) -> true
  | "C03", (TStore _ | TApi _) -> true
  | "C04", (TRecv _ | TLookup (KLK, _, _, _) | TUser _ | TStore _ | TTCreate _ | TAck _) -> true
  | "C05", (TCall ((KLO | KNS), _, _, _) | TSend _ | TDelOut _ | TStore _) -> true
  | "C06", (TSend _ | TRecv _ | TStore _) -> true
  | "C07", _ -> true
  | "C08", (TUser _ | TStore _) -> true
  | "C09", (TLookup (KLT, _, _, _) | TStore _ | TApi _) -> true
  | "C10", (TRecv _ | TAck _ | TUser _) -> true
  | "C11", (TCall ((KAW | KNR | KCL | KNS | KSC | KTW | KRV), _, _, _) | TAck _) -> true
  | "C12", (TCall (KTL, _, _, _) | TTCreate _ | TTEnd _ | TLookup _ | TStore _) -> true
  | "C12", TUser (u, _, _, _, _) -> (match u with UFTimer _ | UFTimeout _ -> true | _ -> false)
  | "C13", (TUser _ | TStore _ | TAck _ | TRecv _) -> true
  | "C14", (TStore _ | TAck _ | TRecv _) -> true
  | "C14", TUser (u, _, _, _, _) -> (match u with UFHook _ -> true | _ -> false)
  | "C15", (TStore _ | TLookup (KLK, _, _, _) | TAck _) -> true
  | "C15", TUser (u, _, _, _, _) -> (match u with UFDelete -> true | _ -> false)
  | "C16", (TStore _ | TUser _) -> true
  | "C20", (TStore _ | TUser _ | TApi _ | TLookup (KLT, _, _, _) | TCall ((KTW | KAW), _, _, _)) -> true
  | _, _ -> false
let () = recmode := (match prop with
  | "" | "C16" | "C20" -> 0
  | "C03" | "C05" | "C06" | "C14" -> 2
  | "C13" -> 3
  | _ -> 1)

let project (tr : tok list) : ostring list = List.map tok_str (List.filter keep tr)

let eng_model (a : ostring list) : ostring list =
  let (items, ops) = split_case a in
  let cfg = parse_cfg items in
  let (_, trace) = run_ops cfg (List.map parse_op ops) in
  project trace

(* the implementation's observation, projected the same way (parse, filter, re-print) *)
let eng_impl_view (obs : ostring list) : ostring list =
  try project (List.map Tokparse.parse_tok obs) with Failure e -> ("UNPARSABLE:" ^ e) :: obs

let register (reg : ostring -> (ostring list -> ostring list) -> (ostring list -> ostring list -> ostring option) -> unit) =
  reg "eng" eng_model (fun a obs -> Monitors_engine.check a obs);
  (* scenarios outside the model's script language: no model observation (the driver does not compare), token clauses only *)
  reg "engx" (fun _ -> ["MONITOR-ONLY"]) (fun a obs -> Monitors_engine.check_local a obs)
