(* Property monitors over an observed engine trace. The implementation's trace tokens are parsed into the extracted
   [tok] type and checked clause by clause; each clause is labelled with the property it belongs to. The same
   functions are applied to model traces in the self-test (a model trace must never be rejected).
   VERIF_PROP selects the property whose clauses are evaluated (unset = all). *)
open Wfmodel
open Conv
open Tokparse

let prop = try Sys.getenv "VERIF_PROP" with Not_found -> ""
let on p = prop = "" || prop = p

exception Bad of ostring * ostring   (* property, reason *)
let bad p fmt = Printf.ksprintf (fun s -> raise (Bad (p, s))) fmt

let is_step_fn = function UFStep _ | UFCallback _ | UFTimeout _ -> true | _ -> false
let eff = function ROk | RErrAfter -> true | _ -> false
let failed = function RErr | RErrAfter | RCancel -> true | _ -> false
let zi = int_of_z
let ni = int_of_n

let tok_res = function
  | TCall (_, _, r, _) | TLookup (_, _, r, _) | TStore (_, _, r) | TAck (_, r) | TSend (_, r) | TDelOut (_, r)
  | TTCreate (_, _, _, r) | TTEnd (_, _, r) -> Some r
  | _ -> None

(* split a trace into per-operation segments *)
let segments (tr : tok list) : tok list list =
  let rec go cur acc = function
    | [] -> List.rev (List.rev cur :: acc)
    | TOp _ :: t -> go [] (List.rev cur :: acc) t
    | x :: t -> go (x :: cur) acc t in
  match go [] [] tr with [] -> [] | _ :: segs -> segs

let rs_ok_states = [RSInitiated; RSRunning]

let check_tokens (cfg : econfig) (ops : eop list) (tr : tok list) : unit =
  let g = ec_graph cfg in
  let segs = segments tr in
  (* --- global state reconstructed from the trace --- *)
  let writes = ref [] in            (* effective stores in order: entry id k <-> k-th *)
  let sent = ref [] in              (* effective sends *)
  let timers = ref [] in            (* effective creates: (id, run, status, expire) *)
  let ntid = ref 1 in
  let hooks_due = ref [] in         (* (state, run, ver) writes needing a hook *)
  let hooks_done = ref [] in
  let paused_at = Hashtbl.create 8 in  (* run -> clock of the last Paused write *)
  let fail_count = Hashtbl.create 8 in (* (inst, unit-string, run, err) -> failing invocations since last pause *)
  let run_state = Hashtbl.create 8 in  (* C09: run -> (foreign ID, run state of its last committed write) *)
  let c09_reported = Hashtbl.create 8 in
  let lost_procs = Hashtbl.create 8 in (* C07/C11: processes whose role was revoked while parked and that have not been stepped since *)
  let cur_key = Hashtbl.create 8 in   (* C13: (inst, poller) -> key of the failing invocation being followed *)
  let cur_event = Hashtbl.create 8 in  (* proc -> event being handled (survives a lag wait) *)
  let inv_ver = Hashtbl.create 8 in    (* C04: run -> (version handed to the last step / timer-step invocation, a write took effect since) *)
  let now = ref 0 in
  List.iteri (fun n seg ->
    let op = (try List.nth ops n with _ -> OAdvance Z0) in
    (match op with OAdvance d -> now := !now + zi d | _ -> ());
    let unit_of_op = (match op with OStep (i, u, _) -> Some (zi i, u) | _ -> None) in
    (* the error counters live in the memory of a service instance: a crash of the instance starts them afresh
       (C13 quantifies over interleavings of failures, not over crashes) *)
    let reset_inst i = Hashtbl.filter_map_inplace (fun (i', _, _, _) v -> if i' = i then None else Some v) fail_count in
    (match op with
     | OCrash i -> reset_inst (zi i)
     | OStep (i, _, pl) when List.exists (fun (_, f) -> f = FCrash) pl -> reset_inst (zi i)
     | _ -> ());
    (* ---------------- token-local clauses ----------------
       The verdict is the EXTRACTED Coq monitor mon_<ID> (coq/model/Monitors.v), proved of every token of every model
       history (coq/proofs/MonitorProofs.v monitors_hold); the hand-written clauses below only word the reason. *)
    let viol t = function
      | "C02" -> not (mon_C02 g t) | "C03" -> not (mon_C03 g t) | "C04" -> not (mon_C04 g t) | "C08" -> not (mon_C08 g t)
      | "C09" -> not (mon_C09 g t) | "C12" -> not (mon_C12 g t) | "C15" -> not (mon_C15 g t) | "C16" -> not (mon_C16 g t) | _ -> false in
    (* mon_C04 / the fresh-view clause of mon_C16 are theorems of histories WITHOUT stale reads (hist_ok): a lagging replica that
       makes an old event look current hands the function a superseded version, which no handler can detect (DESIGN C04 scope
       note); in an operation with a stale-read fault those two clauses are out of their domain *)
    let stale_op = (match op with
      | OStep (_, _, pl) | OTrigger (_, _, _, pl) | OCallback (_, _, pl) | OCtl (_, _, _, pl) -> List.exists (fun (_, f) -> f = FStale) pl
      | _ -> false) in
    let on_tok t p = on p && viol t p && not (stale_op && (match t with TUser _ -> p = "C04" || p = "C16" | _ -> false)) in
    (* C12 "a timer is created only when ... the timer function returns a non-zero time" (theorem C12_create_only_if: every Create
       sits directly on top of the timer function's invocation on that run that returned that non-zero expiry) *)
    (if on "C12" then begin
      let ok_before tk run st ex = (match tk with
        | Some (TUser (UFTimer (s', _), view, _, _, UTime (Some ex'))) -> view.r_run = run && s' = st && ex' = ex
        | _ -> false) in
      let rec go prev = function
        | [] -> ()
        | (TTCreate (run, st, ex, _) as tk) :: tl ->
          if not (ok_before prev run st ex) then
            bad "C12" "a timer was created for run %d at status %d although the timer function had not just returned that non-zero expiry" (ni run) (zi st);
          go (Some tk) tl
        | tk :: tl -> go (Some tk) tl in
      go None seg
    end);
    List.iter (fun t ->
      (match t with
      | TStore (prev, r, a) ->
        (match prev with
         | None ->
           if on_tok t "C16" && (zi r.r_ver <> 1) then bad "C16" "first write of run %d has version %d" (ni r.r_run) (zi r.r_ver);
           if on_tok t "C09" && r.r_state <> RSInitiated then bad "C09" "new run %d is not Initiated" (ni r.r_run);
           if on_tok t "C02" && not (is_valid g r.r_status) then bad "C02" "run %d starts at undeclared status %d" (ni r.r_run) (zi r.r_status)
         | Some p ->
           if on_tok t "C16" && zi r.r_ver <> zi p.r_ver + 1 then bad "C16" "run %d: version %d written over version %d" (ni r.r_run) (zi r.r_ver) (zi p.r_ver);
           if on_tok t "C16" && (r.r_created <> p.r_created) then bad "C16" "run %d: creation time changed" (ni r.r_run);
           if on_tok t "C16" && zi r.r_updated < zi p.r_updated then bad "C16" "run %d: update time went backwards" (ni r.r_run);
           if on_tok t "C03" && rs_finished p.r_state && not (rs_finished r.r_state) then
             bad "C03" "run %d: finished state %d overwritten by %d" (ni r.r_run) (zi (rs_code p.r_state)) (zi (rs_code r.r_state));
           if on_tok t "C03" && not (lc p.r_state r.r_state || p.r_state = r.r_state) then
             bad "C03" "run %d: run state %d -> %d is not an edge of the lifecycle" (ni r.r_run) (zi (rs_code p.r_state)) (zi (rs_code r.r_state));
           if on_tok t "C02" && r.r_status <> p.r_status && not (validate_transition g p.r_status r.r_status) then
             bad "C02" "run %d: status %d -> %d is not a declared transition" (ni r.r_run) (zi p.r_status) (zi r.r_status);
           if on_tok t "C08" && rs_stopped p.r_state && (r.r_status <> p.r_status || (r.r_obj <> p.r_obj && r.r_state <> RSDataDeleted)) then
             bad "C08" "run %d: status/object changed while %d" (ni r.r_run) (zi (rs_code p.r_state));
           if on_tok t "C16" && r.r_obj <> p.r_obj && r.r_state <> RSDataDeleted && not (r.r_state = RSRunning || r.r_state = RSCompleted) then
             bad "C16" "run %d: object changed by a run-state write" (ni r.r_run);
           if on_tok t "C15" && r.r_state = RSDataDeleted && (r.r_status <> p.r_status || r.r_created <> p.r_created) then
             bad "C15" "run %d: data deletion changed status or creation time" (ni r.r_run);
           if on_tok t "C15" && r.r_state = RSDataDeleted && p.r_state <> RSReqDataDeleted && p.r_state <> RSDataDeleted then
             bad "C15" "run %d: scrubbed without a request (state %d)" (ni r.r_run) (zi (rs_code p.r_state));
           if on_tok t "C15" && r.r_state = RSReqDataDeleted && not (List.mem p.r_state [RSCompleted; RSCancelled; RSDataDeleted]) then
             bad "C15" "run %d: DeleteData accepted in state %d" (ni r.r_run) (zi (rs_code p.r_state));
           (* the extracted mon_C15_obj (theorem C15_scrub_object_monitor): whatever becomes DataDeleted holds the scrub of the
              object that was stored — the custom delete function's result when one is configured, else the fixed marker *)
           if on "C15" && not (mon_C15_obj cfg t) then
             bad "C15" "run %d: the DataDeleted write does not hold the result of the configured delete function applied to the stored object" (ni r.r_run));
        if on_tok t "C16" && r.r_desc <> r.r_status then bad "C16" "run %d: status description describes %d but status is %d" (ni r.r_run) (zi r.r_desc) (zi r.r_status);
        if on_tok t "C03" && r.r_state = RSCompleted && not (is_terminal g r.r_status) then bad "C03" "run %d Completed at non-terminal status %d" (ni r.r_run) (zi r.r_status);
        if on_tok t "C03" && (r.r_state = RSRunning) && is_terminal g r.r_status && (match prev with Some p -> p.r_status <> r.r_status | None -> false) then
          bad "C03" "run %d moved to terminal status %d without becoming Completed" (ni r.r_run) (zi r.r_status);
        if eff a then begin
          writes := !writes @ [r];
          if List.mem r.r_state [RSPaused; RSCancelled; RSCompleted] then hooks_due := (r.r_state, r.r_run, r.r_ver) :: !hooks_due;
          if r.r_state = RSPaused then Hashtbl.replace paused_at (ni r.r_run) !now
        end
      | TUser (u, view, pers, unow, planned) ->
        if is_step_fn u then begin
          (match pers with
           | None -> if on_tok t "C08" then bad "C08" "function invoked for a run that is not stored"
           | Some p ->
             if on_tok t "C08" && not (List.mem p.r_state rs_ok_states) then
               bad "C08" "function %d invoked for run %d while its persisted state is %d" (zi (ufun_code u)) (ni p.r_run) (zi (rs_code p.r_state));
             if on_tok t "C16" && view.r_obj <> p.r_obj then bad "C16" "function %d saw an object different from the persisted one (run %d)" (zi (ufun_code u)) (ni p.r_run);
             if on_tok t "C04" && view.r_ver <> p.r_ver then bad "C04" "function invoked on version %d but the persisted version is %d" (zi view.r_ver) (zi p.r_ver))
        end;
        (match u with
         | UFTimeout (s, _) ->
           (match pers with
            | Some p ->
              if on "C12" && p.r_status <> s then bad "C12" "timeout function of status %d invoked for run %d at status %d" (zi s) (ni p.r_run) (zi p.r_status);
              if on "C12" && not (List.exists (fun (_, run, st, ex, live) -> !live && run = p.r_run && st = s && ex <= zi unow) !timers) then
                bad "C12" "timeout function invoked for run %d at status %d without a due timer of that run" (ni p.r_run) (zi s)
            | None -> ())
         | UFHook st ->
           (match pers with
            | Some p -> if planned = UOk then hooks_done := (st, p.r_run) :: !hooks_done
            | None -> ())
         | _ -> ())
      | TTCreate (run, st, ex, a) ->
        if eff a then begin timers := (!ntid, run, st, zi ex, ref true) :: !timers; incr ntid end
      | TTEnd (_, id, a) ->
        if eff a then List.iter (fun (i, _, _, _, live) -> if i = zi id then live := false) !timers
      | TSend (o, a) ->
        if on "C05" && not (List.exists (fun r -> let e = route N0 r in
            e.o_topic = o.o_topic && e.o_run = o.o_run && e.o_type = o.o_type && e.o_state = o.o_state && e.o_ver = o.o_ver) !writes) then
          bad "C05" "an event was published that no write produced (run %d version %d)" (ni o.o_run) (zi o.o_ver);
        if on "C06" then begin
          let st = zi o.o_state in
          let expect = (if st = 7 then TDelete else if st >= 3 && st <= 6 then TRunStateChange else TStatus o.o_type) in
          if o.o_topic <> expect then bad "C06" "event of run %d state %d sent to the wrong topic" (ni o.o_run) st
        end;
        if eff a then sent := o :: !sent
      | TRecv e when on "C05" && (match e.e_topic with TConn _ -> false | _ -> true) ->
        (* what a consumer is handed is what was published: topic, run, status, run state and version of a committed write *)
        if not (List.exists (fun r -> let o = route N0 r in
            o.o_topic = e.e_topic && o.o_run = e.e_run && o.o_type = e.e_type && o.o_state = e.e_state && o.o_ver = e.e_ver) !writes) then
          bad "C05" "a consumer received an event (topic %s, run %d, version %d) that matches no committed write: the published content was altered"
            (match e.e_topic with TStatus z -> "status " ^ string_of_int (zi z) | TDelete -> "delete" | TRunStateChange -> "run-state-change" | TConn _ -> "connector")
            (ni e.e_run) (zi e.e_ver)
      | TDelOut (id, a) ->
        if on "C05" && eff a then begin
          match List.nth_opt !writes (ni id - 1) with
          | None -> ()
          | Some r ->
            let e = route N0 r in
            if not (List.exists (fun o -> e.o_topic = o.o_topic && e.o_run = o.o_run && e.o_ver = o.o_ver && e.o_state = o.o_state && e.o_type = o.o_type) !sent) then
              bad "C05" "outbox entry %d deleted before its event was accepted by the streamer" (ni id)
        end
      | _ -> ());
      List.iter (fun p -> if on_tok t p then bad p "token %s is rejected by the extracted monitor mon_%s (coq/model/Monitors.v)" (match t with
          | TStore (_, r, _) -> Printf.sprintf "[write of run %d: state %d status %d version %d]" (ni r.r_run) (zi (rs_code r.r_state)) (zi r.r_status) (zi r.r_ver)
          | TUser (u, v, _, _, _) -> Printf.sprintf "[invocation of function %d on run %d]" (zi (ufun_code u)) (ni v.r_run)
          | _ -> "[token]") p)
        ["C02"; "C03"; "C04"; "C08"; "C09"; "C12"; "C15"; "C16"]) seg;
    (* ---------------- per-operation clauses ---------------- *)
    (match unit_of_op with
     | Some (inst, EOutbox) ->
       (* C05: a delete directly follows a successful send of the same cycle *)
       let last_ok = ref false in
       List.iter (fun t -> match t with
         | TSend (_, a) -> last_ok := (a = ROk)
         | TDelOut (id, _) -> if on "C05" && not !last_ok then bad "C05" "outbox entry %d deleted without a successful send before it" (ni id); last_ok := false
         | _ -> ()) seg;
       (* C11: every sender opened is closed *)
       let opens = List.length (List.filter (function TCall (KNS, _, ROk, _) -> true | _ -> false) seg)
       and closes = List.length (List.filter (function TCall (KSC, _, _, _) -> true | _ -> false) seg) in
       let crashed = (match op with OStep (_, _, pl) -> List.exists (fun (_, f) -> f = FCrash) pl | _ -> false) in
       (* nothing is observed of an instance after it crashed, so the balance is only demanded of operations that did not crash *)
       if on "C11" && not crashed && opens <> closes then bad "C11" "relay opened %d senders and closed %d" opens closes;
       ignore inst
     | Some (inst, u) when is_consumer u ->
       let key = (inst, u) in
       let recv = List.find_opt (function TRecv _ -> true | _ -> false) seg in
       (match recv with Some (TRecv e) -> Hashtbl.replace cur_event key e | _ -> ());
       let ev = Hashtbl.find_opt cur_event key in
       (* tokens after the receive (or the whole segment when resuming from a lag wait) *)
       let rec after = function [] -> [] | TRecv _ :: t -> t | _ :: t -> after t in
       let body = (match recv with Some _ -> after seg | None -> seg) in
       let acked = List.exists (function TAck (_, a) -> eff a | _ -> false) body in
       let ack_ok = List.exists (function TAck (_, ROk) -> true | _ -> false) body in
       let rec before_ack = function [] -> [] | TAck _ :: _ -> [] | x :: t -> x :: before_ack t in
       let rec after_ack = function [] -> [] | TAck (_, _) :: t -> t | _ :: t -> after_ack t in
       let pre = before_ack body in
       let has_ack = List.exists (function TAck _ -> true | _ -> false) body in
       let pre_failed = List.exists (fun t -> match t with TCall (KTW, _, _, _) -> false | _ -> (match tok_res t with Some r -> failed r | None -> false)) pre in
       let paused_store = List.exists (function TStore (_, r, ROk) -> r.r_state = RSPaused | _ -> false) pre in
       let user_err = List.exists (function TUser (_, _, _, _, UErr _) -> true | _ -> false) pre in
       (* C07 / C11: once a wait of this process was cancelled (role lost during the lag wait or the back-off), the
          process does nothing more with the event: only the receiver is closed *)
       (let rec after_cancel = function
          | [] -> []
          | TCall (KTW, _, RCancel, _) :: t -> t
          | _ :: t -> after_cancel t in
        let rest = after_cancel seg in
        if List.exists (function TCall (KTW, _, RCancel, _) -> true | _ -> false) seg then
          List.iter (function
            | TCall ((KCL | KTW | KAW), _, _, _) -> ()
            | t ->
              if on "C07" then bad "C07" "role lost while waiting for the consume lag, but the event was still handled";
              if on "C11" then bad "C11" "process kept working after its wait was cancelled by the loss of its role";
              ignore t) rest);
       (* progress (C01 "no run is left stranded"; C15 "eventually replaced"; C14 "not lost"): in an operation WITHOUT any planned
          fault in which the consumer received an event, no call failed or was cancelled, the process did not wait, and no user
          function returned an error, the event ends acknowledged. A handler that fails on its own — no adapter failed, no user
          function failed — fails again on every redelivery: the consumer is stuck on that event and everything behind it *)
       (let planned_fault = (match op with OStep (_, _, pl) -> pl <> [] | _ -> true) in
        let any_failed = List.exists (fun t -> match tok_res t with Some r -> failed r | None -> false) seg in
        (* parked for the consume lag right after the receive (the back-off wait after a failure is not a reason) *)
        let waited = (match body with TCall (KTW, _, _, _) :: _ -> true | _ -> false) || List.exists (function TApi _ -> true | _ -> false) seg in
        let any_user_err = List.exists (function TUser (_, _, _, _, UErr _) -> true | _ -> false) seg in
        let tag = (if on "C01" then Some "C01"
                   else match u with
                     | EDelete when on "C15" -> Some "C15"
                     | EHook _ when on "C14" -> Some "C14"
                     | _ -> None) in
        match tag, recv with
        | Some tag, Some (TRecv e) when not planned_fault && not any_failed && not waited && not any_user_err && not has_ack ->
          bad tag "a consumer received the event of run %d (version %d) and gave up on it although no adapter call failed and no user function returned an error: the event is retried for ever" (ni e.e_run) (zi e.e_ver)
        | _ -> ());
       if on "C07" then begin
         if has_ack && pre_failed then bad "C07" "event acknowledged although a call failed while handling it";
         if has_ack && user_err && not paused_store then bad "C07" "event acknowledged although its handler failed";
         if ack_ok && List.exists (function TLookup _ | TUser _ | TStore _ | TTCreate _ -> true | _ -> false) (after_ack body) then
           bad "C07" "event acknowledged before its handling finished";
         if (pre_failed || (user_err && not paused_store)) && recv <> None && not (List.exists (function TCall (KCL, _, _, _) -> true | _ -> false) body) then
           bad "C07" "receiver not closed after a failed event";
         (match ev with
          | Some e ->
            let lag = zi (unit_lag cfg u) in
            List.iter (function
              | TUser (_, _, _, unow, _) | TCall (KTL, [_; unow], _, _) when lag > 0 && zi unow < zi e.e_created + lag ->
                bad "C07" "event handled %d ns after creation, before the consume lag %d" (zi unow - zi e.e_created) lag
              | _ -> ()) body
          | None -> ());
         (* the handler only ever works on the run the event names *)
         (match ev with
          | Some e -> List.iter (function
              | TLookup (KLK, k, _, _) when zi k <> ni e.e_run -> bad "C07" "handler looked up run %d for an event of run %d" (zi k) (ni e.e_run)
              | _ -> ()) pre
          | None -> ())
       end;
       ignore acked;
       (* C04: version gate *)
       (match u, ev with
        | (EStep _ | EInserter _), Some e when on "C04" ->
          let looked = List.find_opt (function TLookup (KLK, _, ROk, Some _) -> true | _ -> false) pre in
          (match looked with
           | Some (TLookup (_, _, _, Some r)) ->
             let touched = List.exists (function TUser _ | TStore _ | TTCreate _ -> true | _ -> false) body in
             if zi r.r_ver > zi e.e_ver && touched then bad "C04" "stale event (version %d, record %d) was acted upon" (zi e.e_ver) (zi r.r_ver);
             if zi r.r_ver > zi e.e_ver && not ack_ok && not pre_failed && has_ack = false && recv <> None then bad "C04" "stale event not acknowledged";
             if zi r.r_ver < zi e.e_ver && (touched || has_ack) then bad "C04" "event newer than the record (version %d, record %d) was processed or acknowledged" (zi e.e_ver) (zi r.r_ver)
           | _ -> ())
        | _ -> ());
       (* C16: "every function sees the persisted object" — also where a replica lags, as far as a handler can tell: a function never
          runs on a version OLDER than the announcement it is handling (that announcement proves a later write exists) *)
       (match u, ev with
        | (EStep _ | EInserter _), Some e when on "C16" ->
          List.iter (function
            | TUser (fu, view, _, _, _) when is_step_fn fu && view.r_run = e.e_run && zi view.r_ver < zi e.e_ver ->
              bad "C16" "function %d ran on version %d of run %d although the announcement it handles carries version %d: it did not see the persisted object"
                (zi (ufun_code fu)) (zi view.r_ver) (ni view.r_run) (zi e.e_ver)
            | _ -> ()) body
        | _ -> ());
       (* C06: who receives *)
       (match recv with
        | Some (TRecv e) when on "C06" ->
          if e.e_topic <> unit_topic u then bad "C06" "consumer received an event of a foreign topic";
          (match u with
           | EStep (s, _, _) | EInserter s -> if not (List.mem (zi e.e_state) [1; 2]) || zi e.e_type <> zi s then bad "C06" "status consumer %d received an event of state %d type %d" (zi s) (zi e.e_state) (zi e.e_type)
           | _ -> ())
        | _ -> ());
       (* C14: a hook that returned an error is re-invoked: its event is not acknowledged *)
       (match u with
        | EHook st when on "C14" ->
          if has_ack && user_err then bad "C14" "hook for state %d returned an error, yet its event was acknowledged (the hook is never re-invoked)" (zi (rs_code st));
          if has_ack && pre_failed && not (List.exists (function TUser (UFHook _, _, _, _, UOk) -> true | _ -> false) pre) then
            bad "C14" "the event of an entry into state %d was acknowledged although a call of the hook consumer failed before the hook was invoked (the hook is never invoked for this entry)" (zi (rs_code st))
        | _ -> ());
       (* C14: "invoked at least once with that run (unless the run's data has been deleted in the meantime)": an event of the hook's
          own state is acknowledged without the hook having been invoked only when the lookup found the run's data deleted — a run
          whose deletion is merely REQUESTED still has its data *)
       (match u, ev with
        | EHook st, Some e when on "C14" && zi e.e_state = zi (rs_code st) && has_ack ->
          let looked = List.find_opt (function TLookup (KLK, _, ROk, Some _) -> true | _ -> false) pre in
          (match looked with
           | Some (TLookup (_, _, _, Some r)) when r.r_obj <> ODeleted && not (List.exists (function TUser (UFHook _, _, _, _, _) -> true | _ -> false) pre) ->
             bad "C14" "the event of run %d's entry into state %d was acknowledged without invoking the hook although the run's data has not been deleted (run state %d)"
               (ni r.r_run) (zi (rs_code st)) (zi (rs_code r.r_state))
           | _ -> ())
        | _ -> ());
       (* C14: hooks only for their own state *)
       (match u, ev with
        | EHook st, Some e when on "C14" ->
          if List.exists (function TUser (UFHook _, _, _, _, _) -> true | _ -> false) body && zi e.e_state <> zi (rs_code st) then
            bad "C14" "hook for state %d invoked on account of a write to state %d" (zi (rs_code st)) (zi e.e_state)
        | _ -> ());
       (* C13: error-count pausing *)
       (match u with
        | EStep _ | EInserter _ when on "C13" ->
          let n = zi (match u with
            | EStep (s, _, _) -> (match find_step cfg s with Some sc -> resolve_pause cfg sc.sc_pause | None -> Z0)
            | EInserter s -> (match find_to cfg s with Some t -> resolve_pause cfg t.to_pause | None -> resolve_pause cfg Z0)
            | _ -> Z0) in
          List.iter (function
            | TUser (fu, view, _, _, UErr e) when is_step_fn fu || (match fu with UFTimer _ -> true | _ -> false) ->
              let k = (inst, u, view.r_run, zi e) in
              let c = (try Hashtbl.find fail_count k with Not_found -> 0) + 1 in
              Hashtbl.replace fail_count k c;
              let auto_paused = List.exists (function TStore (_, r, _) -> r.r_state = RSPaused && r.r_run = view.r_run | _ -> false) body in
              if n = 0 && auto_paused then bad "C13" "run %d paused although no error count is configured" (ni view.r_run);
              if n > 0 && c < n && auto_paused then bad "C13" "run %d paused at failure %d of %d" (ni view.r_run) c n;
              if n > 0 && c >= n && not auto_paused && not (List.exists (fun t -> match tok_res t with Some r -> failed r | None -> false) body) then
                bad "C13" "run %d not paused at failure %d of %d" (ni view.r_run) c n;
              if auto_paused then Hashtbl.replace fail_count k 0
            | TTCreate (run, _, _, ((RErr | RErrAfter) as a)) as tk when (match u with EInserter _ -> true | _ -> false) ->
              (* the timeout inserter: a failing TimeoutStore.Create is the error of its handler; it counts towards the timeout's
                 own PauseAfterErrCount (the workflow default only where none is set) like a failing step function *)
              ignore a;
              let k = (inst, u, run, -1) in
              let c = (try Hashtbl.find fail_count k with Not_found -> 0) + 1 in
              Hashtbl.replace fail_count k c;
              let auto_paused = List.exists (function TStore (_, r, _) -> r.r_state = RSPaused && r.r_run = run | _ -> false) body in
              let others_failed = List.exists (fun t -> t != tk && (match tok_res t with Some r -> failed r | None -> false)) body in
              if n = 0 && auto_paused then bad "C13" "run %d paused by the timeout inserter although no error count is configured" (ni run);
              if n > 0 && c < n && auto_paused then bad "C13" "run %d paused at the inserter's failure %d of %d" (ni run) c n;
              if n > 0 && c >= n && not auto_paused && not others_failed then bad "C13" "run %d not paused at the inserter's failure %d of %d" (ni run) c n;
              if auto_paused then Hashtbl.replace fail_count k 0
            | _ -> ()) body
        | ERetry when on "C13" ->
          List.iter (function
            | TStore (Some p, r, _) when r.r_state = RSRunning ->
              if p.r_state <> RSPaused then bad "C13" "retry process resumed run %d from state %d" (ni r.r_run) (zi (rs_code p.r_state));
              if cfg.ec_stamp && !now - zi p.r_updated < zi cfg.ec_retry then
                bad "C13" "run %d resumed %d ns after it was paused, before the interval %d" (ni r.r_run) (!now - zi p.r_updated) (zi cfg.ec_retry)
            | _ -> ()) body
        | _ -> ())
     | Some (inst, (EPoller s as u)) ->
       (* C13 on the timeout path: a poll cycle handles several timers; each failing timeout function counts towards its own
          (instance, process, run, error); the pause (reason: error count) follows the n-th, and the count starts afresh
          after a pause write that succeeded *)
       if on "C13" then begin
         let n = zi (match find_to cfg s with Some t -> resolve_pause cfg t.to_pause | None -> resolve_pause cfg Z0) in
         let seg_failed = List.exists (fun t -> match tok_res t with Some r -> failed r | None -> false) seg in
         let pending = ref None in
         let close () =
           (match !pending with
            | Some (run, c) -> if n > 0 && c >= n && not seg_failed then bad "C13" "run %d not paused at timeout failure %d of %d" run c n
            | None -> ());
           pending := None in
         List.iter (function
           | TUser (UFTimeout _, view, _, _, UErr e) ->
             close ();
             let k = (inst, u, view.r_run, zi e) in
             let c = (try Hashtbl.find fail_count k with Not_found -> 0) + 1 in
             Hashtbl.replace fail_count k c;
             pending := Some (ni view.r_run, c);
             Hashtbl.replace cur_key (inst, u) k
           | TUser (UFTimeout _, _, _, _, _) -> close ()
           | TStore (_, r, a) when r.r_state = RSPaused && (match !pending with Some (run, _) -> run = ni r.r_run | None -> false) ->
             (match !pending with
              | Some (run, c) ->
                if n = 0 then bad "C13" "run %d paused by a failing timeout although no error count is configured" run;
                if n > 0 && c < n then bad "C13" "run %d paused at timeout failure %d of %d" run c n;
                if a = ROk then (match Hashtbl.find_opt cur_key (inst, u) with Some k -> Hashtbl.replace fail_count k 0 | None -> ());
                pending := None
              | None -> ())
           | _ -> ()) seg;
         close ()
       end;
       if on "C12" then begin
         (* a cancelled timer's run has moved on or finished; completion only after a stored transition *)
         let last_lk = ref None and stored = ref false in
         List.iter (function
           | TLookup ((KLK | KLT), _, ROk, r) -> last_lk := r; stored := false
           | TStore (_, r, a) -> if eff a then (stored := true; last_lk := Some r)
           | TTEnd (KTX, id, _) ->
             (match !last_lk with
              | Some r -> if r.r_status = s && not (rs_finished r.r_state) then bad "C12" "timer %d cancelled although its run still waits at status %d" (zi id) (zi s)
              | None -> ())
           | TTEnd (KTM, id, _) -> if not !stored then bad "C12" "timer %d completed without a stored timeout transition" (zi id)
           | _ -> ()) seg;
         (* "a timer whose run has moved on or finished is cancelled without invoking anything": the poller's lookup that finds the
            timer's run at another status, or finished (Cancelled and the data-deletion states included — they are "stopped" as
            well), is followed at once by the Cancel of that timer (operations without a crash: nothing is seen of a dead instance) *)
         (if not (match op with OStep (_, _, pl) -> List.exists (fun (_, f) -> f = FCrash) pl | _ -> false) then
            (* [fresh]: no timeout function has been invoked since the cycle listed its timers / ended the previous timer — the
               lookup is the poller's own read of a timer's run, not the updater's re-read after a function returned *)
            let rec go fresh = function
              | TLookup (KLK, _, ROk, Some r) :: rest when fresh && (zi r.r_status <> zi s || rs_finished r.r_state) ->
                (match rest with
                 | TTEnd (KTX, _, _) :: _ -> ()
                 | _ -> bad "C12" "run %d has left status %d or is finished (state %d), yet its expired timer was not cancelled" (ni r.r_run) (zi s) (zi (rs_code r.r_state)));
                go fresh rest
              | (TCall (KTL, _, _, _) | TTEnd _) :: rest -> go true rest
              | TUser _ :: rest -> go false rest
              | _ :: rest -> go fresh rest
              | [] -> () in
            go false seg);
         (* "a failing timeout function is retried on later polls": until the next invocation, a timeout function that returned an
            error (whatever status it returned alongside) is followed by no status change of its run and by no timer completion *)
         let failed_fn = ref None in
         List.iter (function
           | TUser (UFTimeout _, view, _, _, UErr _) -> failed_fn := Some view.r_run
           | TUser (fu, _, _, _, _) when is_step_fn fu -> failed_fn := None
           | TStore (Some p, r, a) when eff a && !failed_fn = Some r.r_run && zi r.r_status <> zi p.r_status ->
             bad "C12" "run %d: the timeout function returned an error, yet a transition to status %d was stored (the failure is not retried)" (ni r.r_run) (zi r.r_status)
           | TTEnd (KTM, id, ROk) when !failed_fn <> None -> bad "C12" "timer %d was marked completed although its timeout function returned an error" (zi id)
           | _ -> ()) seg
       end
     | _ -> ());
    (* C10 "every event is handled by exactly one of the n shards and acknowledged unhandled by the others", for STEP shards: the
       step function is invoked only in the shard whose filter accepts the event's ID (theorem C10_other_shards_acknowledge_unhandled) *)
    (match unit_of_op with
     | Some (_, EStep (_, i, n)) when on "C10" ->
       (match List.find_opt (function TRecv _ -> true | _ -> false) seg with
        | Some (TRecv e) when shard_skip i n e.e_id && List.exists (function TUser _ -> true | _ -> false) seg ->
          bad "C10" "event %d belongs to another shard, yet shard %d of %d invoked the step function for it" (zi e.e_id) (zi i) (zi n)
        | _ -> ())
     | _ -> ());
    (* C04 "acted upon only when the record version it carries equals the run's current persisted version ... redelivering leaves
       every record unchanged": once a write to a run has taken effect, no step function is handed the version it was handed before
       that write again — an announcement of that version is older than the record (operations with a stale-read fault are outside
       the clause, see the scope note) *)
    (if on "C04" && not stale_op then
       List.iter (function
         | TUser (UFStep _, view, _, _, _) ->
           (match Hashtbl.find_opt inv_ver view.r_run with
            | Some (v, true) when v = zi view.r_ver ->
              bad "C04" "run %d: a step function was handed version %d again although a write to the run has taken effect since it was last handed that version (an older announcement was acted upon)" (ni view.r_run) v
            | _ -> ());
           Hashtbl.replace inv_ver view.r_run (zi view.r_ver, false)
         | TStore (Some _, r, a) when eff a ->
           (match Hashtbl.find_opt inv_ver r.r_run with Some (v, _) -> Hashtbl.replace inv_ver r.r_run (v, true) | None -> ())
         | _ -> ()) seg);
    (* C16 / C02: only an invocation that returned a next status with a nil error is followed by a status write *)
    (if on "C16" || on "C02" then begin
       let last = ref None in
       List.iter (function
         | TUser (u, view, _, _, planned) when is_step_fn u -> last := Some (view.r_run, planned)
         | TStore (Some p, r, _) ->
           (match !last with
            | Some (run, planned) when run = r.r_run && (r.r_status <> p.r_status || (r.r_obj <> p.r_obj && r.r_state <> RSDataDeleted)) ->
              (match planned with
               | UErr _ -> bad (if on "C16" then "C16" else "C02") "run %d: the function returned an error, yet a status / object change was persisted" (ni r.r_run)
               | URet z when zi z = 0 || zi z = -1 -> bad (if on "C16" then "C16" else "C02") "run %d: the function asked to skip, yet a status / object change was persisted" (ni r.r_run)
               | UPauseA | UCancelA -> bad (if on "C16" then "C16" else "C02") "run %d: the function paused / cancelled the run, yet a status / object change was persisted" (ni r.r_run)
               | URet z -> if zi z <> zi r.r_status then bad (if on "C16" then "C16" else "C02") "run %d: the function returned status %d but %d was persisted" (ni r.r_run) (zi z) (zi r.r_status)
               | _ -> ())
            | _ -> ())
         | _ -> ()) seg
     end);
    (* C07 / C11: an adapter call that failed with an error (not a cancellation) sends the process through the error exit:
       it waits the configured back-off on the workflow clock before it asks for its role again *)
    (if (on "C07" || on "C11") then
       match unit_of_op, op with
       | Some _, OStep (_, _, pl) when not (List.exists (fun (_, f) -> f = FCrash || f = FLease) pl) ->
         let rec after_fail = function
           | [] -> None
           | t :: rest ->
             (match t with
              | TCall ((KAW | KTW | KCL), _, _, _) -> after_fail rest
              | _ -> (match tok_res t with Some (RErr | RErrAfter) -> Some rest | _ -> after_fail rest)) in
         (match after_fail seg with
          | Some rest ->
            let cancelled = List.exists (fun t -> tok_res t = Some RCancel) seg in
            if not cancelled && not (List.exists (function TCall (KTW, _, _, _) -> true | _ -> false) rest) then
              bad (if on "C07" then "C07" else "C11") "an adapter call failed with an error, yet the process did not wait the error back-off (%d) before asking for its role again" (zi cfg.ec_backoff)
          | None -> ())
       | _ -> ());
    (* C07 / C11: a wait of a background process (consume lag, error back-off, schedule) ends cancelled only when its role was
       lost: revoked while it was parked (OLose before this step), a lease-loss fault or a crash in this step. A wait that
       comes back cancelled with the role still held was cut short by the process itself — the back-off / lag is not waited *)
    (if on "C07" || on "C11" then
       match op with
       | OStep (i, u, pl) ->
         let key = (zi i, u) in
         let was_lost = Hashtbl.mem lost_procs key in
         Hashtbl.remove lost_procs key;
         if not was_lost && not (List.exists (fun (_, f) -> f = FCrash || f = FLease) pl)
            && List.exists (function TCall (KTW, _, RCancel, _) -> true | _ -> false) seg then
           bad (if on "C07" then "C07" else "C11") "a wait (consume lag / error back-off) of a background process came back cancelled although its role was not lost: the wait is not waited"
       | OLose (i, u) -> Hashtbl.replace lost_procs (zi i, u) ()
       | OCrash i -> Hashtbl.filter_map_inplace (fun (i', _) v -> if i' = zi i then None else Some v) lost_procs
       | _ -> ());
    (* C07 / C11: a failing step / timer function sends its consumer through the error exit like any other error — whatever the
       error wraps: the process reaches its back-off wait (a TW token, whatever its outcome) unless the failure was answered by
       the error-count pause (the handler then returns nil) *)
    (if on "C07" || on "C11" then
       match op with
       | OStep (_, (EStep _ | EInserter _), pl) when not (List.exists (fun (_, f) -> f = FCrash) pl) ->
         let user_failed = List.exists (function TUser (fu, _, _, _, UErr _) -> (match fu with UFStep _ | UFTimer _ -> true | _ -> false) | _ -> false) seg in
         let paused_ok = List.exists (function TStore (_, r, ROk) -> r.r_state = RSPaused | _ -> false) seg in
         if user_failed && not paused_ok && not (List.exists (function TCall (KTW, _, _, _) -> true | _ -> false) seg)
            && not (List.exists (function TApi _ -> true | _ -> false) seg) then
           bad (if on "C07" then "C07" else "C11") "a step / timer function returned an error, yet its consumer never reached the error back-off (the failure was taken for a lost role: the event is re-handled at once)"
       | _ -> ());
    (* C11, and every other property of the engine, whose theorems all rest on it: every store / stream / timeout-store call of a
       background process is made under the context its role scheduler handed out (the harness marks a call that carried any
       other context with API=-2): a lost role stops the work *)
    (if true then
       match unit_of_op with
       | Some _ when List.exists (function TApi z -> zi z = -2 | _ -> false) seg ->
         bad (if on "C11" then "C11" else prop) "a background process made an adapter call that was not under the context handed out by its role scheduler"
       | _ -> ());
    (* C11: Stop returns only after every process has shut down: afterwards no adapter is called (API=-3) and every receiver and
       sender that was opened has been closed (API=-4); the harness appends these marks after the last operation *)
    (if on "C11" then begin
       if List.exists (function TApi z -> zi z = -3 | _ -> false) seg then bad "C11" "an adapter was called after Stop had returned";
       if List.exists (function TApi z -> zi z = -4 | _ -> false) seg then bad "C11" "a receiver or sender was still open after Stop had returned";
       if List.exists (function TApi z -> zi z = -5 | _ -> false) seg then bad "C11" "Stop returned while a background process of the instance had not shut down"
     end);
    (* every property of the engine (C11 "act under their role", C20 "ends when the workflow stops" in particular): once the workflow's
       context is cancelled every process ends and Stop returns; a process that sleeps or waits on something outside that context
       keeps Stop from returning (the harness gives up after 5 s of real time: API=-7) *)
    (if List.exists (function TApi z -> zi z = -7 | _ -> false) seg then
       bad (if on "C11" then "C11" else prop) "Stop did not return: a background process does not end when the workflow stops (it waits on something that is not under the workflow's context)");
    (* C02: "a function that returns an undeclared destination changes nothing ... and the caller (Callback) or the retry loop
       (background consumers) sees an error": the event of a step whose function returned an undeclared, non-skip destination
       is not acknowledged; a Callback whose function did so returns an error *)
    (if on "C02" then begin
       let undeclared = List.exists (function
         | TUser (fu, view, _, _, URet z) when is_step_fn fu -> not (skip_status z) && not (validate_transition g view.r_status z)
         | _ -> false) seg in
       if undeclared then begin
         (match op with
          | OStep (_, (EStep _ | EInserter _), _) ->
            if List.exists (function TAck (_, a) -> eff a | _ -> false) seg then
              bad "C02" "a step function returned an undeclared destination, yet its event was acknowledged: the retry loop saw no error"
          | OCallback _ ->
            if List.exists (function TApi z -> zi z = 0 | _ -> false) seg then
              bad "C02" "a callback function returned an undeclared destination, yet Callback returned nil"
          | _ -> ())
       end
     end);
    (* C16: "the object is persisted iff a declared next status is returned with a nil error" — the IF direction, per invocation: in
       an operation without a planned fault in which no call failed, a step / callback / timeout function that returned a
       declared destination (a self-loop included) is followed, before the next invocation, by the write of that run at that status *)
    (if on "C16" then begin
       let no_fault = (match op with OStep (_, _, pl) | OCallback (_, _, pl) -> pl = [] | _ -> false) in
       let any_failed = List.exists (fun t -> match tok_res t with Some r -> failed r | None -> false) seg in
       if no_fault && not any_failed then begin
         let rec scan = function
           | [] -> ()
           | TUser (fu, view, Some pers, _, URet z) :: rest when is_step_fn fu && not (skip_status z)
                                                              && zi view.r_status = zi pers.r_status && validate_transition g view.r_status z ->
             let rec until_next = function [] -> [] | TUser (fu', _, _, _, _) :: _ when is_step_fn fu' -> [] | x :: t -> x :: until_next t in
             if not (List.exists (function TStore (Some _, r, a) -> eff a && r.r_run = view.r_run && zi r.r_status = zi z | _ -> false) (until_next rest)) then
               bad "C16" "function %d returned the declared status %d for run %d (at status %d) with a nil error, but nothing was persisted" (zi (ufun_code fu)) (zi z) (ni view.r_run) (zi view.r_status);
             scan rest
           | _ :: rest -> scan rest in
         scan seg
       end
     end);
    (* C15 / C16: the object written for a run is made from that run's stored object alone. The harness object has a field that
       is present exactly for odd seeds; an object whose field does not fit its own seed carries data of another run (a decode
       target re-used across runs) and is printed with the marker -777 in its trail *)
    (if on "C15" || on "C16" || on "C01" then
       List.iter (function
         | TStore (_, r, _) ->
           (match r.r_obj with
            | OVal (_, tr) when List.exists (fun x -> zi x = -777) tr ->
              bad (if on "C15" then "C15" else if on "C16" then "C16" else "C01") "run %d: the object written carries a field of another run's object (it was not made from this run's stored object alone)" (ni r.r_run)
            | _ -> ())
         | _ -> ()) seg);
    (* C15: a failing delete function leaves the run RequestedDataDeleted: no write, no Ack *)
    (if on "C15" then begin
       let failed_delete = ref false in
       List.iter (function
         | TUser (UFDelete, _, _, _, UErr _) -> failed_delete := true
         | TUser (UFDelete, _, _, _, _) -> failed_delete := false
         | TStore (_, r, a) when !failed_delete && r.r_state = RSDataDeleted && eff a ->
           bad "C15" "run %d was rewritten as DataDeleted although its delete function returned an error" (ni r.r_run)
         | TAck (_, a) when !failed_delete && eff a -> bad "C15" "deletion request acknowledged although the delete function returned an error"
         | _ -> ()) seg
     end);
    (* every property of the engine: a process that stops making adapter calls without terminating is blocked outside the
       simulation — it waits on something that is not under the context its role scheduler handed out (API=-6) *)
    (if List.exists (function TApi z -> zi z = -6 | _ -> false) seg then
       bad prop "a background process went silent without terminating: it is blocked on something that is not under the context handed out by its role scheduler (a lost role would not stop it)");
    (* every property of the engine: a process that asks again for a role it never handed back (API=-8) waits for itself for ever —
       it "re-acquires its role" no more, its events are never handled again, runs behind it are stranded *)
    (if List.exists (function TApi z -> zi z = -8 | _ -> false) seg then
       bad prop "a background process asked again for the role it still holds: the role context of its previous attempt was never cancelled, so with a real role scheduler it now waits for itself for ever");
    (* C11: a background process never terminates while the workflow is running *)
    (if on "C11" || on "C07" || on "C01" then
       match unit_of_op with
       | Some _ when List.exists (function TApi z -> zi z = -1 | _ -> false) seg ->
         bad (if on "C11" then "C11" else prop) "a background process terminated while the workflow is running (it never asks for its role again)"
       | _ -> ());
    (* C14 / C15 / C12: "the hook registered for that state is invoked at least once", "a deletion request is served", "a due timer
       fires" each need their consumer to exist: a hook / delete / timeout process that is configured but absent while the workflow
       is running (the harness finds no process to schedule: API=-1) never does its work *)
    (match unit_of_op with
     | Some (_, EHook _) when on "C14" && List.exists (function TApi z -> zi z = -1 | _ -> false) seg ->
       bad "C14" "a hook is registered but no process consumes the run-state-change topic for it: the hook is never invoked"
     | Some (_, EDelete) when on "C15" && List.exists (function TApi z -> zi z = -1 | _ -> false) seg ->
       bad "C15" "no process consumes the deletion topic: a deletion request is never served"
     | Some (_, EPoller _) when on "C12" && List.exists (function TApi z -> zi z = -1 | _ -> false) seg ->
       bad "C12" "a timeout is configured but its poller process does not exist: a due timer never fires"
     | _ -> ());
    (* C11: calls under the lease — every failed lease (can) is followed by no successful context call *)
    (if on "C11" then
       let lost = ref false in
       List.iter (fun t ->
         (match t with
          | TCall ((KAK | KCL | KSC | KTW | KAW), _, _, _) | TAck _ -> ()
          | _ -> (match tok_res t with
              | Some RCancel -> lost := true
              | Some (ROk | RErrAfter) when !lost && unit_of_op <> None -> bad "C11" "adapter call succeeded after the lease was lost"
              | _ -> ()))) seg);
    (* C09: the invariant itself — after every operation at most one run of a foreign ID is unfinished *)
    (if on "C09" || on "C20" then begin
       List.iter (function
         | TStore (_, r, a) when eff a -> Hashtbl.replace run_state r.r_run (r.r_fid, r.r_state)
         | _ -> ()) seg;
       let per_fid = Hashtbl.create 8 in
       Hashtbl.iter (fun run (fid, st) -> if not (rs_finished st) then Hashtbl.replace per_fid fid (run :: (try Hashtbl.find per_fid fid with Not_found -> []))) run_state;
       Hashtbl.iter (fun fid runs -> match List.sort compare runs with
         | a :: b :: _ -> if not (Hashtbl.mem c09_reported fid) then begin
             Hashtbl.replace c09_reported fid ();
             bad (if on "C09" then "C09" else "C20") "runs %d and %d of foreign ID %d are both unfinished (a run was created while the previous one is unfinished)" (ni a) (ni b) (ni fid) end
         | _ -> ()) per_fid;
       (match op with
        | OTrigger _ ->
          let wrote = List.exists (function TStore (_, _, a) -> eff a | _ -> false) seg in
          if on "C09" && wrote && List.exists (function TLookup (KLT, _, (RErr | RErrAfter | RCancel), _) -> true | _ -> false) seg then
            bad "C09" "Trigger wrote a run although the lookup of the latest run failed"
        | _ -> ())
     end);
    (* C09: trigger = one store or none *)
    (* C16 / C09: "object hand-over is exact" starts at Trigger: the run it creates holds exactly the given initial value *)
    (match op with
     | OTrigger (_, _, seed, _) when on "C16" || on "C09" ->
       List.iter (function
         | TStore (None, r, _) ->
           (match r.r_obj with
            | OVal (sd, []) when zi sd = zi seed -> ()
            | _ -> bad (if on "C16" then "C16" else "C09") "Trigger persisted an object that is not the given initial value (run %d): the hand-over of the object is not exact" (ni r.r_run))
         | _ -> ()) seg
     | _ -> ());
    (match op with
     | OTrigger (fid, start, _, _) when on "C09" ->
       let stores = List.filter (function TStore _ -> true | _ -> false) seg in
       let api_ok = List.exists (function TApi z -> zi z = 0 | _ -> false) seg in
       (* an explicitly requested starting status (anything but 0): the run is created at THAT status, and only if the workflow
          declares it — an undeclared request (negative ones included) is an error and writes nothing *)
       if zi start <> 0 then
         List.iter (function
           | TStore (_, r, _) ->
             if not (is_valid g start) then bad "C09" "Trigger wrote a run although the requested starting status %d is not declared" (zi start)
             else if zi r.r_status <> zi start then bad "C09" "Trigger created the run at status %d although status %d was requested" (zi r.r_status) (zi start)
           | _ -> ()) stores;
       if List.length stores > 1 then bad "C09" "Trigger wrote %d records" (List.length stores);
       if api_ok && List.length stores <> 1 then bad "C09" "Trigger succeeded without writing exactly one record";
       (* "succeeds only when ... it then persists exactly one new run": a Store that failed before taking effect persisted nothing *)
       if api_ok && List.length (List.filter (function TStore (_, _, a) -> eff a | _ -> false) stores) <> 1 then
         bad "C09" "Trigger returned success although its Store call failed: no run was persisted";
       List.iter (function
         | TStore (prev, r, _) ->
           if prev <> None then bad "C09" "Trigger overwrote an existing run";
           if zi r.r_ver <> 1 || r.r_state <> RSInitiated then bad "C09" "Trigger wrote version %d state %d" (zi r.r_ver) (zi (rs_code r.r_state))
         | _ -> ()) stores;
       (* the latest run of the foreign ID must not be unfinished *)
       List.iter (function
         | TLookup (KLT, _, ROk, Some l) -> if stores <> [] && rs_valid l.r_state && not (rs_finished l.r_state) then bad "C09" "Trigger created a run while run %d is unfinished" (ni l.r_run)
         | _ -> ()) seg;
       ignore fid
     | (OCtl (_, o, _, _)) when on "C03" || (on "C15" && o = OpDeleteData) ->
       let bad _ fmt = bad (if on "C03" then "C03" else "C15") fmt in
       let stores = List.filter (function TStore _ -> true | _ -> false) seg in
       let api_ok = List.exists (function TApi z -> zi z = 0 | _ -> false) seg in
       let looked = List.find_opt (function TLookup (KLK, _, ROk, Some _) -> true | _ -> false) seg in
       (match looked with
        | Some (TLookup (_, _, _, Some r)) ->
          let doc = ctl_documented r.r_state o in
          if not doc && stores <> [] then bad "C03" "rejected control operation wrote a record";
          if not doc && api_ok then bad "C03" "control operation accepted in state %d" (zi (rs_code r.r_state));
          if doc && stores = [] then bad "C03" "control operation allowed in state %d wrote nothing" (zi (rs_code r.r_state))
        | _ -> ())
     | _ -> ())
  ) segs;
  (* ---------------- quiescence of the observed execution ---------------- *)
  (* quiescence of the observed execution: the last step of every process found nothing to do, and no timer is pending *)
  let procs = List.sort_uniq compare (List.filter_map (function OStep (i, u, _) -> Some (zi i, u) | _ -> None) ops) in
  let last_seg = Hashtbl.create 16 in
  List.iteri (fun n seg -> match (try List.nth ops n with _ -> OAdvance Z0) with
    | OStep (i, u, pl) -> Hashtbl.replace last_seg (zi i, u) (seg, pl, n)
    | _ -> ()) segs;
  let last_disturb = List.fold_left max (-1) (List.mapi (fun n o -> match o with OStep _ -> -1 | _ -> n) ops) in
  let idle (seg, pl, n) =
    pl = [] && n > last_disturb && seg <> [] &&
    List.for_all (function
      | TCall (KAW, _, (ROk | RBlocked), _) | TCall (KRV, _, RBlocked, _) | TCall (KNR, _, ROk, _) -> true
      | TCall (KLO, _, ROk, []) | TCall (KTL, _, ROk, []) -> true
      | _ -> false) seg &&
    List.exists (function
      | TCall (KAW, _, RBlocked, _) | TCall (KRV, _, RBlocked, _) | TCall (KLO, _, ROk, []) | TCall (KTL, _, ROk, []) -> true
      | _ -> false) seg in
  let quiescent =
    procs <> [] && List.for_all (fun p -> match Hashtbl.find_opt last_seg p with Some x -> idle x | None -> false) procs
    && not (List.exists (fun (_, _, _, _, live) -> !live) !timers) in

  (* ---------------- C01: prefix of the failure-free history; equal to it at quiescence ---------------- *)
  (* ---------------- C10 / C07: connector events — every event is handled (connector function returned nil) by exactly one shard of
     its connector: all successful handlings come from the shard that owns int64(fnv64(ID)), and at quiescence there is one ---------------- *)
  if on "C10" || on "C07" then begin
    let tag = if on "C10" then "C10" else "C07" in
    let handled = Hashtbl.create 16 in   (* (cid, event id) -> units that handled it successfully *)
    List.iteri (fun n seg ->
      match (try List.nth ops n with _ -> OAdvance Z0) with
      | OStep (_, (EConn (cid, i, tot) as u), _) ->
        List.iter (function
          | TUser (UFConn _, view, _, _, UOk) ->
            let key = (cid, view.r_status) in
            Hashtbl.replace handled key (u :: (try Hashtbl.find handled key with Not_found -> []));
            if shard_skip i tot view.r_status then
              bad tag "connector %d: shard %d of %d handled event %s, which belongs to another shard" (ni cid) (zi i) (zi tot) (string_of_z view.r_status)
          | _ -> ()) seg
      | _ -> ()) segs;
    Hashtbl.iter (fun (cid, id) us ->
      match List.sort_uniq compare us with
      | _ :: _ :: _ -> bad tag "connector %d: event %s was handled by more than one shard" (ni cid) (string_of_z id)
      | _ -> ()) handled;
    if quiescent then
      List.iter (function
        | OConnSend (cid, id, _) ->
          if List.exists (fun (k : conncfg) -> k.cn_id = cid) cfg.ec_conns && not (Hashtbl.mem handled (cid, id)) then
            bad tag "connector %d: the system is quiescent but event %s was handled by no shard" (ni cid) (string_of_z id)
        | _ -> ()) ops
  end;
  (* ---------------- C08 (resume continues) / C01 (not stranded), in token form: at quiescence every run that is Initiated or
     Running at a status with a step has had its step function invoked on its current version ---------------- *)
  if (on "C08" || on "C01") && quiescent then begin
    let latest = Hashtbl.create 8 and invoked = Hashtbl.create 16 in
    List.iter (List.iter (function
      | TStore (_, r, a) when eff a -> Hashtbl.replace latest r.r_run r
      | TUser (UFStep _, view, _, _, _) -> Hashtbl.replace invoked (view.r_run, zi view.r_ver) ()
      | _ -> ())) segs;
    Hashtbl.iter (fun run (r : record) ->
      if (r.r_state = RSInitiated || r.r_state = RSRunning) && find_step cfg r.r_status <> None
         && not (Hashtbl.mem invoked (run, zi r.r_ver)) then
        bad (if on "C08" then "C08" else "C01")
          "run %d is %s at status %d (version %d) and the system is quiescent, but its step was never invoked on that version (the change was left unprocessed)"
          (ni run) (if r.r_state = RSRunning then "Running" else "Initiated") (zi r.r_status) (zi r.r_ver)) latest
  end;
  if on "C01" then begin
    let tag = "C01" in
    (* (C08: a resumed run continues from the same status, so it too ends where the failure-free execution ends)
       the failure-free execution: the same operations without faults, crashes, lease revocations, rewinds, duplicates *)
    let ideal_ops = List.filter_map (fun o -> match o with
      | OTrigger (f, st, sd, _) -> Some (OTrigger (f, st, sd, []))
      | OCallback (f, st, _) -> Some (OCallback (f, st, []))
      | OCtl (r, c, ui, _) -> Some (OCtl (r, c, ui, []))
      | OStep (i, u, _) -> Some (OStep (i, u, []))
      | OAdvance d -> Some (OAdvance d)
      | OSched (i, f, v) -> Some (OSched (i, f, v))
      | OConnSend (c, i, f) -> Some (OConnSend (c, i, f))
      | OCrash _ | OLose _ | ORewind _ | ODup _ -> None) ops in
    let (wi, ti) = run_ops cfg ideal_ops in
    (* runs are identified by (foreign ID, k-th successful trigger of that foreign ID) in both executions *)
    let runs_of (ops : eop list) (segs : tok list list) =
      let acc = ref [] in
      List.iteri (fun n seg -> match (try List.nth ops n with _ -> OAdvance Z0) with
        | OTrigger (fid, _, _, _) ->
          List.iter (function TStore (None, r, a) when eff a ->
              let k = List.length (List.filter (fun (f, _, _) -> f = fid) !acc) in acc := (fid, k, r.r_run) :: !acc
            | _ -> ()) seg
        | _ -> ()) segs;
      !acc in
    let my_runs = runs_of ops segs and ideal_runs = runs_of ideal_ops (segments ti) in
    let dedup l = let rec go prev = function [] -> [] | x :: t -> if Some x = prev then go prev t else x :: go (Some x) t in go None l in
    let seq_of (hist : record list) run = dedup (List.filter_map (fun r -> if r.r_run = run then Some (r.r_status, r.r_obj) else None) hist) in
    let rec is_prefix a b = match a, b with [] , _ -> true | x :: ta, y :: tb -> x = y && is_prefix ta tb | _ :: _, [] -> false in
    (* the failure-free execution must itself have come to rest for its final records to be the reference *)
    let ideal_rest = wi.w_outbox = [] in
    List.iter (fun (fid, k, run) ->
      match List.find_opt (fun (f, k', _) -> f = fid && k' = k) ideal_runs with
      | None -> ()
      | Some (_, _, irun) ->
        let mine = seq_of !writes run and ideal = seq_of wi.w_hist irun in
        if not (is_prefix mine ideal) then
          bad tag "run %d (foreign ID %d): persisted history is not a prefix of the failure-free history (a step's effect was lost, repeated or reordered)" (ni run) (ni fid);
        if quiescent && ideal_rest && List.length mine < List.length ideal then
          bad tag "run %d (foreign ID %d): the system is quiescent but the run stopped %d step(s) short of the failure-free execution (stranded)" (ni run) (ni fid) (List.length ideal - List.length mine)
    ) my_runs
  end;
  (* ---------------- C20: scheduled runs are never early, at most one per tick, carry the initial value ---------------- *)
  if on "C20" then begin
    let now = ref 0 in
    let created = Hashtbl.create 8 in      (* fid -> creation times of its runs, newest first *)
    let started = Hashtbl.create 8 in      (* (inst, fid) -> clock at Schedule() *)
    List.iteri (fun n seg ->
      let op = (try List.nth ops n with _ -> OAdvance Z0) in
      (match op with
       | OAdvance d -> now := !now + zi d
       | OSched (i, f, true) -> Hashtbl.replace started (zi i, f) !now
       | OCrash i -> Hashtbl.filter_map_inplace (fun (i', _) v -> if i' = zi i then None else Some v) started
       | OTrigger (f, _, _, _) ->
         List.iter (function TStore (None, r, a) when eff a -> Hashtbl.replace created f (zi r.r_created :: (try Hashtbl.find created f with Not_found -> [])) | _ -> ()) seg
       | OStep (i, ESched f, pl) ->
         (match find_sched cfg f with
          | None -> ()
          | Some sc ->
            let filter_false = List.exists (function TUser (UFFilter _, _, _, _, URet z) -> zi z = 0 | _ -> false) seg in
            List.iter (function
              | TStore (None, r, a) ->
                let t = !now in
                if filter_false then bad "C20" "a run was created in an iteration whose schedule filter answered false";
                (match r.r_obj with OVal (sd, _) when zi sd = zi sc.sd_seed -> () | _ -> bad "C20" "the scheduled run does not carry the configured initial value");
                let start = (try Hashtbl.find started (zi i, f) with Not_found -> 0) in
                let prev = (try Hashtbl.find created f with Not_found -> []) in
                let nx x = zi (cron_next sc.sd_spec (z_of_int x)) in
                (match prev with
                 | l :: _ ->
                   if t < nx l then bad "C20" "scheduled run created at %d, before the tick %d that follows the latest run (created %d)" t (nx l) l
                   else if t < nx (max start l) then
                     bad "C20" "F13-catch-up: scheduled run created at %d, before the first tick %d after the schedule's start %d; the latest run (created %d) predates the start by more than a tick" t (nx start) start l
                 | [] -> if t < nx start then bad "C20" "scheduled run created at %d, before the first tick %d after the schedule's start %d" t (nx start) start);
                if eff a then Hashtbl.replace created f (zi r.r_created :: prev)
              | _ -> ()) seg);
         if List.exists (fun (_, fl) -> fl = FCrash) pl then Hashtbl.filter_map_inplace (fun (i', _) v -> if i' = zi i then None else Some v) started
       | _ -> ())) segs
  end;
  (* ---------------- C14: at quiescence every entry into a hooked state has had its hook run to success ---------------- *)
  if on "C14" && quiescent then begin
    let final_of run = List.fold_left (fun acc r -> if r.r_run = run then Some r else acc) None !writes in
    List.iter (fun (st, _) ->
      let runs = List.sort_uniq compare (List.filter_map (fun (q, run, _) -> if q = st then Some run else None) !hooks_due) in
      List.iter (fun run ->
        let due = List.length (List.filter (fun (q, r, _) -> q = st && r = run) !hooks_due)
        and don = List.length (List.filter (fun (q, r) -> q = st && r = run) !hooks_done) in
        let deleted = (match final_of run with Some r -> r.r_obj = ODeleted || r.r_state = RSDataDeleted || r.r_state = RSReqDataDeleted | None -> true) in
        if don < due && not deleted then
          bad "C14" "run %d entered state %d %d time(s) but its hook completed only %d time(s) although nothing is pending" (ni run) (zi (rs_code st)) due don) runs
    ) cfg.ec_hooks
  end;
  (* ---------------- C15: at quiescence no accepted deletion request is left unserved ---------------- *)
  if on "C15" && quiescent then begin
    let runs = List.sort_uniq compare (List.map (fun r -> r.r_run) !writes) in
    List.iter (fun run ->
      match List.fold_left (fun acc r -> if r.r_run = run then Some r else acc) None !writes with
      | Some r when r.r_state = RSReqDataDeleted ->
        bad "C15" "run %d: an accepted DeleteData request never reached DataDeleted although nothing is pending" (ni run)
      | _ -> ()) runs
  end

(* engx: scenarios OUTSIDE the model's script language (no model run, nothing to compare with): the token-local clauses of the token
   theorem (the extracted tok_ok: store_ok on every Store, user_ok on every invocation) are evaluated on the implementation's tokens *)
let check_local (a : ostring list) (obs : ostring list) : ostring option =
  let rec split_case acc = function "--" :: r -> (List.rev acc, r) | x :: r -> split_case (x :: acc) r | [] -> (List.rev acc, []) in
  let (items, _) = split_case [] a in
  try
    let cfg = Engparse.parse_cfg items in
    let g = ec_graph cfg in
    List.iter (fun t ->
      if not (tok_ok g t) then
        (match t with
         | TStore (Some p, r, _) -> bad prop "run %d: the Store of version %d (state %d, status %d) over the persisted version %d (state %d, status %d) violates the token clause store_ok (identity, version + 1, lifecycle, declared transition, object)" (ni r.r_run) (zi r.r_ver) (zi (rs_code r.r_state)) (zi r.r_status) (zi p.r_ver) (zi (rs_code p.r_state)) (zi p.r_status)
         | TStore (None, r, _) -> bad prop "run %d: first write violates the token clause store_ok" (ni r.r_run)
         | _ -> bad prop "an invocation violates the token clause user_ok (not the persisted version / object, or a stopped run)")) (List.map parse_tok obs);
    None
  with
  | Bad (p, r) -> Some (Printf.sprintf "[%s] %s" p r)
  | Failure e -> Some ("[parse] " ^ e)

let check (a : ostring list) (obs : ostring list) : ostring option =
  let rec split_case acc = function "--" :: r -> (List.rev acc, r) | x :: r -> split_case (x :: acc) r | [] -> (List.rev acc, []) in
  let (items, ops) = split_case [] a in
  try
    let cfg = Engparse.parse_cfg items in
    let ops = List.map Engparse.parse_op ops in
    let tr = List.map parse_tok obs in
    check_tokens cfg ops tr; None
  with
  | Bad (p, r) -> Some (Printf.sprintf "[%s] %s" p r)
  | Failure e -> Some ("[parse] " ^ e)
