(* parse the harness' trace tokens back into the extracted [tok] type (inverse of Kinds_engine.tok_str) *)
open Wfmodel
open Conv

let split c s = String.split_on_char c s
let zs s = z_of_string s
let ns s = n_of_string s

let ares_of = function "ok" -> ROk | "err" -> RErr | "erra" -> RErrAfter | "can" -> RCancel | "nf" -> RNotFound | "blk" -> RBlocked
  | s -> failwith ("ares " ^ s)

let obj_of (s : ostring) : obj =
  if s = "D" then ODeleted
  else begin
    (* s<seed>t<t1_t2..> *)
    let ti = String.index s 't' in
    let seed = String.sub s 1 (ti - 1) in
    let tr = String.sub s (ti + 1) (String.length s - ti - 1) in
    OVal (zs seed, if tr = "" then [] else List.map zs (split '_' tr))
  end

let rec_of (s : ostring) : record =
  match split '.' s with
  | [run; st; status; ver; o; cr; up; desc; fid] ->
    { r_wf = N0; r_fid = ns fid; r_run = ns run;
      r_state = (match rs_of_code (zs st) with Some x -> x | None -> RSUnknown);
      r_status = zs status; r_obj = obj_of o; r_created = zs cr; r_updated = zs up; r_ver = zs ver; r_reason = N0;
      r_desc = (if desc = "?" then z_of_int (-999999) else zs desc) }
  | _ -> failwith ("record " ^ s)
let orec_of s = if s = "-" then None else Some (rec_of s)

let topic_of (s : ostring) : topic =
  if s = "d" then TDelete else if s = "r" then TRunStateChange
  else if s.[0] = 'k' then TConn (ns (String.sub s 1 (String.length s - 1)))
  else TStatus (zs (String.sub s 1 (String.length s - 1)))

let kind_of = function
  | "AW" -> KAW | "NR" -> KNR | "RV" -> KRV | "AK" -> KAK | "CL" -> KCL | "LK" -> KLK | "LT" -> KLT | "ST" -> KST
  | "LO" -> KLO | "NS" -> KNS | "SD" -> KSD | "SC" -> KSC | "DO" -> KDO | "TL" -> KTL | "TC" -> KTC | "TM" -> KTM
  | "TX" -> KTX | "TW" -> KTW | k -> failwith ("kind " ^ k)

let zlist s = if s = "" then [] else List.map zs (split ',' s)

let ufun_of (code : ostring) : ufun =
  let c = int_of_string code in
  let fam = c / 1000000 and rest = c mod 1000000 in
  (* codes are fam*1e6 + 1000*j + status, status possibly negative (then rest wraps): decode conservatively *)
  let j = rest / 1000 and s = rest mod 1000 in
  match fam with
  | 1 -> UFStep (z_of_int rest)
  | 2 -> UFCallback (z_of_int s, nat_of_int j)
  | 3 -> UFTimer (z_of_int s, nat_of_int j)
  | 4 -> UFTimeout (z_of_int s, nat_of_int j)
  | 5 -> UFHook (match rs_of_code (z_of_int rest) with Some x -> x | None -> RSUnknown)
  | 7 -> UFFilter (n_of_int rest)
  | 8 -> UFConn (n_of_int rest)
  | _ -> UFDelete

let uret_of (s : ostring) : uret =
  if s = "ok" then UOk else if s = "pause" then UPauseA else if s = "cancel" then UCancelA
  else if s = "t-" then UTime None
  else match s.[0] with
    | 'r' -> URet (zs (String.sub s 1 (String.length s - 1)))
    | 'e' -> UErr (zs (String.sub s 1 (String.length s - 1)))
    | 't' -> UTime (Some (zs (String.sub s 1 (String.length s - 1))))
    | _ -> failwith ("uret " ^ s)

let event_of (s : ostring) : event =
  match split '.' s with
  | [id; t; run; fid; typ; st; ver; cr] ->
    { e_id = zs id; e_wf = N0; e_topic = topic_of t; e_run = ns run; e_fid = ns fid; e_type = zs typ; e_state = zs st; e_ver = zs ver; e_created = zs cr }
  | _ -> failwith ("event " ^ s)

let oentry_of (s : ostring) : oentry =
  match split '.' s with
  | [t; run; fid; typ; st; ver] ->
    { o_id = N0; o_wf = N0; o_topic = topic_of t; o_run = ns run; o_fid = ns fid; o_type = zs typ; o_state = zs st; o_ver = zs ver }
  | _ -> failwith ("oentry " ^ s)

(* split "HEAD=res..." at the first '=' *)
let cut c s = match String.index_opt s c with
  | Some i -> (String.sub s 0 i, String.sub s (i + 1) (String.length s - i - 1))
  | None -> (s, "")

let parse_tok (t : ostring) : tok =
  if t = "" then failwith "empty token"
  else if t.[0] = '#' then TOp (nat_of_int (int_of_string (String.sub t 1 (String.length t - 1))))
  else if String.length t > 4 && String.sub t 0 4 = "API=" then
    (let v = String.sub t 4 (String.length t - 4) in TApi (if v = "http" then z_of_int 1 else zs v))
  else if String.length t > 3 && String.sub t 0 3 = "RV=" then TRecv (event_of (String.sub t 3 (String.length t - 3)))
  else begin
    let (lhs, rhs) = cut '=' t in
    let (k, args) = cut ':' lhs in
    match k with
    | "ST" -> let (prev, r) = cut '/' args in TStore (orec_of prev, rec_of r, ares_of rhs)
    | "LK" | "LT" -> let (res, rc) = cut ':' rhs in TLookup (kind_of k, zs args, ares_of res, orec_of rc)
    | "US" ->
      let (code, rest) = cut ':' args in
      let (recs, now) = cut '@' rest in
      let (view, pers) = cut '/' recs in
      TUser (ufun_of code, rec_of view, orec_of pers, zs now, uret_of rhs)
    | "AK" -> TAck ({ e_id = zs args; e_wf = N0; e_topic = TDelete; e_run = N0; e_fid = N0; e_type = Z0; e_state = Z0; e_ver = Z0; e_created = Z0 }, ares_of rhs)
    | "SD" -> TSend (oentry_of args, ares_of rhs)
    | "DO" -> TDelOut (ns args, ares_of rhs)
    | "TC" -> (match split '.' args with [run; s; ex] -> TTCreate (ns run, zs s, zs ex, ares_of rhs) | _ -> failwith "TC")
    | "TM" | "TX" -> TTEnd (kind_of k, zs args, ares_of rhs)
    | _ -> let (res, out) = cut ':' rhs in TCall (kind_of k, zlist args, ares_of res, zlist out)
  end
