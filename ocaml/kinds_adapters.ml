(* adapter families: parse the operation languages of harness/adapters.go, run the extracted REFERENCE model (the
   contract) — its answers are what the property fixes — and cross-check the extracted adapter model against it. *)
open Wfmodel
open Conv

let zi = z_of_int
let ios = int_of_string
let sz = string_of_z
let sn = string_of_n
let split c s = String.split_on_char c s
let vals s = if s = "-" then None else Some (split ',' s)

let rs_of_int i = match rs_of_code (zi i) with Some s -> s | None -> RSUnknown

(* ---------------- record store ---------------- *)
let rec parse_sop (op : ostring) : sop =
  match split '.' op with
  | ["S"; wf; fid; run; st; status; seed; created; ver; _mut] ->
    SStore { r_wf = n_of_int (ios wf); r_fid = n_of_int (ios fid); r_run = n_of_int (ios run); r_state = rs_of_int (ios st);
             r_status = zi (ios status); r_obj = OVal (zi (ios seed), []); r_created = zi (ios created); r_updated = zi (ios created);
             r_ver = zi (ios ver); r_reason = N0; r_desc = Z0 }
  | "SF" :: _k :: rest -> (match parse_sop (String.concat "." ("S" :: rest)) with SStore r -> SStoreFail r | _ -> failwith "SF")
  (* a Store whose outbox entry cannot be encoded (foreign ID not valid UTF-8): fails as a whole *)
  | "SB" :: rest -> (match parse_sop (String.concat "." ("S" :: rest)) with SStore r -> SStoreFail r | _ -> failwith "SB")
  | ["L"; run; _] -> SLookup (n_of_int (ios run))
  | ["T"; wf; fid; _] -> SLatest (n_of_int (ios wf), n_of_int (ios fid))
  | ["O"; wf; lim] -> SOutbox (n_of_int (ios wf), zi (ios lim))
  | ["D"; id] -> SDelOutbox (n_of_int (ios id))
  | ["Q"; wf; off; lim; desc; fids; sts; states] ->
    SList (n_of_int (ios wf), zi (ios off), zi (ios lim), desc = "1",
           { f_fid = (match vals fids with None -> None | Some l -> Some (List.map (fun x -> n_of_int (ios x)) l));
             f_status = (match vals sts with None -> None | Some l -> Some (List.map (fun x -> zi (ios x)) l));
             f_state = (match vals states with None -> None | Some l -> Some (List.map (fun x -> zi (ios x)) l)) })
  | _ -> failwith ("ms op " ^ op)

let with_created = ref true
let srec_str (r : record) =
  Printf.sprintf "%s.%s.%s.%s.%s.%s.%s.%s" (sn r.r_wf) (sn r.r_fid) (sn r.r_run) (sz (rs_code r.r_state)) (sz r.r_status)
    (match r.r_obj with OVal (s, _) -> sz s | ODeleted -> "-999") (if !with_created then sz r.r_created else "0") (sz r.r_ver)
let topic_tok = function TStatus s -> "s" ^ sz s | TDelete -> "d" | TRunStateChange -> "r" | TConn c -> "k" ^ string_of_n c
let oentry_str (o : oentry) =
  Printf.sprintf "%s/%s/%s/%s/%s/%s/%s/%s" (sn o.o_id) (sn o.o_wf) (topic_tok o.o_topic) (sn o.o_run) (sn o.o_fid) (sz o.o_type) (sz o.o_state) (sz o.o_ver)
let sobs_str = function
  | ObOk -> "ok"
  | ObErr -> "err"
  | ObRec None -> "nf"
  | ObRec (Some r) -> "rec:" ^ srec_str r
  | ObOutbox l -> "ob:" ^ String.concat "," (List.map oentry_str l)
  | ObList l -> "ls:" ^ String.concat "," (List.map srec_str l)

let ms_model (a : ostring list) : ostring list =
  let ops = List.map parse_sop a in
  if not (sops_ok [] ops) then failwith "operation sequence outside the domain (run ID re-used with another workflow / foreign ID, negative offset, limit < 1)";
  let r = List.map sobs_str (ref_run rstore0 ops) and m = List.map sobs_str (mem_run mstore0 ops) in
  if r <> m then failwith "extracted MemStore and RefStore disagree (contradicts Stores refinement theorem)";
  r

(* the SQL store: same contract; CreatedAt is stamped by the database and not compared; the statement log must be clean *)
(* the extracted statement-level model of sqlstore.Store (coq/model/Sql.v), run next to the reference store: the failure
   position of SF.<k> is mapped onto the model's statement list (which also has the event-encoding step) *)
let sql_crosscheck (a : ostring list) : unit =
  let db = ref { db_recs = []; db_outbox = []; db_noid = n_of_int 1 } and rs = ref rstore0 in
  List.iter (fun op ->
    (match split '.' op with
     | "S" :: _ -> (match parse_sop op with SStore r -> let (d, _) = sql_store !db r None in db := d | _ -> ())
     | "SF" :: k :: _ ->
       let k = ios k in let k = if k >= 3 then k + 1 else k in
       (match parse_sop op with SStoreFail r -> let (d, ok) = sql_store !db r (Some (nat_of_int k)) in
          if ok then failwith "extracted sql_store committed a failing Store"; db := d | _ -> ())
     | "SB" :: _ ->
       (* the event-encoding step of the model's statement list (position 3) fails *)
       (match parse_sop op with SStoreFail r -> let (d, ok) = sql_store !db r (Some (nat_of_int 3)) in
          if ok then failwith "extracted sql_store committed a Store whose entry cannot be encoded"; db := d | _ -> ())
     | "D" :: _ -> (match parse_sop op with SDelOutbox id -> db := { !db with db_outbox = List.filter (fun o -> o.o_id <> id) !db.db_outbox } | _ -> ())
     | _ -> ());
    let (r', _) = ref_step !rs (parse_sop op) in rs := r';
    if db_abs !db <> !rs then failwith "extracted Sql model and reference store disagree (contradicts C18_store_refines)") a

(* the statement List builds (coq/model/SqlWhere.v list_stmt), in the harness's canonical token form *)
let wfield_str = function FWf -> "workflow_name" | FFid -> "foreign_id" | FStatus -> "status" | FState -> "run_state" | FRun -> "run_id"
let stmt_str (q : sqlstmt) : ostring =
  String.concat "," (List.map (function KLp -> "(" | KRp -> ")" | KAnd -> "and" | KOr -> "or"
                                       | KEq f -> "eq:" ^ wfield_str f | KNotNull f -> "nn:" ^ wfield_str f) q.q_cond)
  ^ "|" ^ String.concat "," (List.map (function KOrderBy d -> "ob:created_at:" ^ (if d then "desc" else "asc") | KLimit -> "lim" | KOffset -> "off") q.q_tail)
  ^ "|" ^ String.concat "," (List.map sz q.q_args)

(* RF.<read op>: the read's result set breaks while it is streamed; every read then answers with an error and changes nothing *)
let is_rf (op : ostring) = String.length op > 3 && String.sub op 0 3 = "RF."
let rec sq_model (a : ostring list) : ostring list =
  if List.exists is_rf a then begin
    let plain = List.filter (fun op -> not (is_rf op)) a in
    let r = sq_model plain in
    let (body, tail) = (let n = List.length plain in (List.filteri (fun i _ -> i < n) r, List.filteri (fun i _ -> i >= n) r)) in
    let rec weave ops outs = (match ops, outs with
      | op :: t, _ when is_rf op -> "err" :: weave t outs
      | _ :: t, o :: ot -> o :: weave t ot
      | [], _ -> []
      | _ :: _, [] -> failwith "sq_model weave") in
    weave a body @ tail
  end else sq_model_plain a
and sq_model_plain (a : ostring list) : ostring list =
  sql_crosscheck a;
  with_created := false;
  let r = (try ms_model a with e -> with_created := true; raise e) in
  with_created := true;
  (* each List answer is followed by the statement text; the extracted SQL reading of that statement over the reference
     store's rows must give the reference answer (contradicts C18_list_statement_meaning otherwise) *)
  let rs = ref rstore0 in
  let r = List.map2 (fun op o ->
    let sop = parse_sop op in
    let out = (match sop with
      | SList (wf, off, lim, desc, f) ->
        let q = list_stmt wf off lim desc f in
        (match sql_select q !rs.rs_recs, ref_step !rs sop with
         | Some l, (_, ObList l') when l = l' -> ()
         | _ -> failwith "extracted sql_select of list_stmt and the reference List disagree (contradicts C18_list_statement_meaning)");
        o ^ "|" ^ stmt_str q
      | _ -> o) in
    rs := fst (ref_step !rs sop); out) a r in
  r @ ["log:ok"]
let sqt_model_ref : (ostring list -> ostring list) ref = ref (fun _ -> [])

(* ---------------- streams ---------------- *)
let parse_mop (op : ostring) : mop =
  match split '.' op with
  | ["s"; topic; payload] -> MSend (n_of_int (ios topic), zi (ios payload))
  | ["n"; h; topic; name; latest] | ["n"; h; topic; name; latest; _] ->
    (* the optional 6th field (a poll-frequency option given before / after) does not exist for the model *)
    MNewReceiver (n_of_int (ios h), n_of_int (ios topic), n_of_int (ios name), latest = "1")
  | ["r"; h] -> MRecv (n_of_int (ios h))
  | ["a"; h] -> MAck (n_of_int (ios h))
  | _ -> failwith ("mst op " ^ op)
let mobs_str = function
  | MbOk -> "ok" | MbBlock -> "blk" | MbNoHandle -> "noh"
  | MbEvent (id, t, p) -> Printf.sprintf "ev:%s.%s.%s" (sz id) (sn t) (sz p)

let mst_model (a : ostring list) : ostring list =
  let ops = List.map parse_mop a in
  (* the two domains of the refinement theorems: a name keeps one topic and one option (C19_refines), or the whole sequence is on
     one topic with names and options free per receiver (C19_refines_single_topic) *)
  let one_topic = (match List.filter_map (function MSend (t, _) -> Some t | MNewReceiver (_, t, _, _) -> Some t | _ -> None) ops with
    | t :: _ -> single_topic t ops
    | [] -> true) in
  if not (mops_ok [] ops || one_topic) then failwith "operation sequence outside the domain (receiver name re-used with another topic / option, on several topics)";
  let r = List.map mobs_str (rref_run rstream0 ops) and m = List.map mobs_str (mmem_run mstream0 ops) in
  if r <> m then failwith "extracted MemStreamer and RefStream disagree (contradicts Streams refinement theorem)";
  r

let mco_model (a : ostring list) : ostring list =
  match a with
  | k :: rest ->
    let pre = List.init (ios k) (fun i -> MSend (N0, zi (100 + i))) in
    let ops = pre @ List.map parse_mop rest in
    let r = List.map mobs_str (rref_run rstream0 ops) in
    (* drop the observations of the preloading sends *)
    let rec drop n l = if n = 0 then l else (match l with [] -> [] | _ :: t -> drop (n - 1) t) in
    drop (ios k) r
  | [] -> failwith "mco"

(* ---------------- timeouts ---------------- *)
let parse_top (op : ostring) : top =
  match split '.' op with
  | ["c"; wf; fid; run; status; ex] -> TOCreate (n_of_int (ios wf), n_of_int (ios fid), n_of_int (ios run), zi (ios status), zi (ios ex))
  | ["m"; id] -> TOComplete (zi (ios id))
  | ["x"; id] -> TOCancel (zi (ios id))
  | ["v"; wf; status; now] -> TOListValid (n_of_int (ios wf), zi (ios status), zi (ios now))
  | ["l"; wf] -> TOList (n_of_int (ios wf))
  | _ -> failwith ("mto op " ^ op)
let trec_str (t : trec) =
  Printf.sprintf "%s/%s/%s/%s/%s/%s/%s" (sz t.t_id) (sn t.t_wf) (sn t.t_fid) (sn t.t_run) (sz t.t_status) (string_of_bool t.t_completed) (sz t.t_expire)
let tobs_str = function TbOk -> "ok" | TbList l -> "tl:" ^ String.concat "," (List.map trec_str l)

let mto_model (a : ostring list) : ostring list =
  let ops = List.map parse_top a in
  let r = List.map tobs_str (tref_run rtstore0 ops) and m = List.map tobs_str (tmem_run mtstore0 ops) in
  if r <> m then failwith "extracted MemTimeout and RefTimeout disagree (contradicts Timeouts refinement theorem)";
  r

(* ---------------- launch ---------------- *)
let launch_cfg (a : ostring list) : config =
  match a with
  | [name; dpar; steps; tos; ts; conns; hooks; retry] ->
    let pairs s f = if s = "-" then [] else List.map f (split ',' s) in
    { cf_name = unhx name; cf_default_parallel = zi (ios dpar);
      cf_steps = pairs steps (fun x -> match split ':' x with [s; p] -> (zi (ios s), zi (ios p)) | _ -> failwith "step");
      cf_timeouts = pairs tos (fun x -> zi (ios x)); cf_has_tstore = (ts = "1");
      cf_connectors = pairs conns (fun x -> match split ':' x with [n; p] -> (coq_of_string n, zi (ios p)) | _ -> failwith "conn");
      cf_hooks = pairs hooks (fun x -> rs_of_int (ios x)); cf_retry = (retry = "1") }
  | _ -> failwith "launch arity"
let launch_model (a : ostring list) : ostring list =
  let c = launch_cfg a in
  let roles = List.sort compare (List.map string_of_coq (launch_roles c)) in
  string_of_int (List.length roles) :: "1" :: List.map hex_of_string roles
let launch_monitor (a : ostring list) (obs : ostring list) : ostring option =
  let m = launch_model a in
  if m = obs then None
  else match obs, m with
    | n :: same :: roles, mn :: _ :: mroles ->
      if same <> "1" then Some "role names depend on the statuses' display strings"
      else if List.length (List.sort_uniq compare roles) <> List.length roles then Some "a role was requested twice (process launched more than once)"
      else if n <> mn || roles <> mroles then
        Some (Printf.sprintf "Run started %s processes, the configuration asks for %s; missing: [%s] unexpected: [%s]" n mn
                (String.concat " " (List.map string_of_hex (List.filter (fun r -> not (List.mem r roles)) mroles)))
                (String.concat " " (List.map string_of_hex (List.filter (fun r -> not (List.mem r mroles)) roles))))
      else None
    | _ -> Some "unparsable"

(* ---------------- await ---------------- *)
let aw_model (a : ostring list) : ostring list =
  match a with
  | status :: fid :: run :: ws ->
    let status = zi (ios status) in
    let recs = List.map (fun w -> match split '.' w with
      | ["w"; run; fid; st; status] ->
        { r_wf = N0; r_fid = n_of_int (ios fid); r_run = n_of_int (ios run); r_state = rs_of_int (ios st); r_status = zi (ios status);
          r_obj = ODeleted; r_created = Z0; r_updated = Z0; r_ver = Z0; r_reason = N0; r_desc = Z0 }
      | _ -> failwith "aw write") ws in
    let i = await_first (status = zi 3) (n_of_int (ios fid)) (n_of_int (ios run)) status recs Z0 in
    let i = int_of_z i in
    [string_of_int i; (if i < 0 then "0" else sz (List.nth recs i).r_status)]
  | _ -> failwith "aw arity"
let aw_monitor (a : ostring list) (obs : ostring list) : ostring option =
  match a, obs with
  | status :: _ :: run :: ws, [i; got] ->
    let i = ios i in
    if i < 0 then (if aw_model a = obs then None else Some "Await did not return although an event recording the awaited status of the awaited run was published")
    else
      (match split '.' (List.nth ws i) with
       | ["w"; r; _; _; s] ->
         if r <> run then Some "Await was released by an event of another run"
         else if s <> status then Some (Printf.sprintf "Await(status %s) was released by an event recording status %s" status s)
         else if got <> status then Some "Await returned a run that is not at the awaited status"
         else if aw_model a <> obs then Some "Await was released by a later event than the first one recording the awaited status"
         else None
       | _ -> Some "unparsable")
  | _ -> Some "unparsable"

let register (reg : ostring -> (ostring list -> ostring list) -> (ostring list -> ostring list -> ostring option) -> unit) =
  let equal_monitor what model args obs =
    let m = (try model args with Failure e -> ["MODEL-ERROR:" ^ e]) in
    if m = obs then None
    else begin
      (* first differing operation *)
      let rec first i a b = match a, b with
        | x :: ta, y :: tb -> if x = y then first (i + 1) ta tb else Printf.sprintf "operation %d: %s answered [%s], the reference %s answers [%s]" i what y what x
        | [], y :: _ -> Printf.sprintf "operation %d: extra answer [%s]" i y
        | x :: _, [] -> Printf.sprintf "operation %d: no answer, the reference answers [%s]" i x
        | [], [] -> "same" in
      Some (first 0 m obs)
    end in
  reg "ms" ms_model (equal_monitor "store" ms_model);
  reg "mst" mst_model (equal_monitor "stream" mst_model);
  reg "mco" mco_model (equal_monitor "connector" mco_model);
  reg "mto" mto_model (equal_monitor "timeout store" mto_model);
  reg "sq" sq_model (equal_monitor "SQL store" sq_model);
  (* the reference's answers; next to them the extracted statement-level model of adapters/sqltimeout (coq/model/SqlTimeout.v):
     inside its domain it must agree with the reference (contradicts C18_sqltimeout_refines otherwise) *)
  let sqt_model a =
    let ops = List.map parse_top a in
    let r = tref_run rtstore0 ops in
    if tsql_run_dom mtstore0 ops && tsql_run mtstore0 ops <> r then
      failwith "extracted SqlTimeout model and the reference timer list disagree inside the domain (contradicts C18_sqltimeout_refines)";
    List.map tobs_str r @ ["log:ok"] in
  reg "sqt" sqt_model (equal_monitor "SQL timeout store" sqt_model);
  (* trgmem: trigger.go's decision (refuse iff the latest-created run of the foreign ID is valid and unfinished: rs_valid,
     rs_finished, the reference store's Latest) over the reference store, run numbers = creation order *)
  let trg_model a =
    let rs = ref rstore0 and nrun = ref 0 and created = ref [] in
    List.map (fun op ->
      match split '.' op with
      | [("t" | "u") as which; fid] ->
        let wf = n_of_int (if which = "t" then 1 else 2) in
        let fid = n_of_int (ios fid) in
        (match ref_step !rs (SLatest (wf, fid)) with
         | (_, ObRec (Some r)) when rs_valid r.r_state && not (rs_finished r.r_state) -> "inprog"
         | _ ->
           incr nrun;
           let r = { r_wf = wf; r_fid = fid; r_run = n_of_int !nrun; r_state = RSInitiated; r_status = zi 1; r_obj = OVal (Z0, []);
                     r_created = zi !nrun; r_updated = zi !nrun; r_ver = zi 1; r_reason = N0; r_desc = zi 1 } in
           rs := fst (ref_step !rs (SStore r)); created := !created @ [r.r_run]; "ok")
      | ["b"; _] -> "err:none"   (* the announcement cannot be encoded: the Store fails as a whole, Trigger returns its error, nothing is written *)
      | ["n"; _] -> "err:none"   (* trigger.go: a workflow that is not running refuses at once, before any lookup or write *)
      | ["w"; k; state] ->
        let k = ios k in
        if k < 1 || k > List.length !created then "nf"
        else (match ref_step !rs (SLookup (List.nth !created (k - 1))) with
          | (_, ObRec (Some r)) ->
            rs := fst (ref_step !rs (SStore { r with r_state = rs_of_int (ios state); r_ver = Wfmodel.Z.add r.r_ver (zi 1) })); "ok"
          | _ -> "nf")
      | _ -> failwith ("trgmem op " ^ op)) a in
  reg "trgmem" trg_model (equal_monitor "Trigger on the in-memory store" trg_model);
  (* role scheduler: an acceptor — never two live holders of one role; every Await call returns in the end *)
  let mro_model a =
    let n = List.length (List.filter (fun o -> String.length o > 0 && o.[0] = 'a') a) in
    [(if n = 0 then "0" else "1"); string_of_int n] in
  let mro_monitor a obs = (match obs, mro_model a with
    | [ov; ret], [_; n] ->
      if int_of_string ov > 1 then Some (Printf.sprintf "%s holders of one role were live at the same time" ov)
      else if ret <> n then Some (Printf.sprintf "%s of %s Await calls returned although every holder released its role" ret n)
      else None
    | _ -> Some "unparsable") in
  reg "mro" mro_model mro_monitor;
  reg "launch" launch_model launch_monitor;
  reg "aw" aw_model aw_monitor;
  (* Schedule is rejected (and starts nothing) iff the workflow is not running or the specification is not one of the
     valid ones of the grid; a valid specification on a running workflow starts exactly one scheduler *)
  let schedrej a = (match a with
    | [running; spec] ->
      let valid = List.mem (string_of_hex spec) ["* * * * *"; "@hourly"] in
      if running = "1" && valid then ["0"; "1"] else ["1"; "0"]
    | _ -> failwith "schedrej") in
  reg "schedrej" schedrej (equal_monitor "Schedule" schedrej)
