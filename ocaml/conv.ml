(* Conversions between decimal strings / OCaml ints and the extracted positive / N / Z / nat. Hand-written glue. *)
type ostring = string
open Wfmodel
type cstring = Wfmodel.string

let rec pos_of_int (n:int) : positive =
  if n <= 1 then XH else if n land 1 = 0 then XO (pos_of_int (n lsr 1)) else XI (pos_of_int (n lsr 1))
let z_of_int (n:int) : z = if n = 0 then Z0 else if n > 0 then Zpos (pos_of_int n) else Zneg (pos_of_int (-n))
let n_of_int (n:int) : n = if n <= 0 then N0 else Npos (pos_of_int n)
let rec nat_of_int (n:int) : nat = if n <= 0 then O else S (nat_of_int (n-1))
let rec int_of_nat (n:nat) : int = match n with O -> 0 | S k -> 1 + int_of_nat k
let rec int_of_pos (p:positive) : int = match p with XH -> 1 | XO q -> 2 * int_of_pos q | XI q -> 2 * int_of_pos q + 1
let int_of_n (x:n) : int = match x with N0 -> 0 | Npos p -> int_of_pos p
let int_of_z (x:z) : int = match x with Z0 -> 0 | Zpos p -> int_of_pos p | Zneg p -> - (int_of_pos p)

(* arbitrary-size decimal parsing / printing through the extracted Z operations (beyond OCaml's 63-bit ints) *)
let ten = z_of_int 10
let z_of_string (s:ostring) : z =
  let neg = String.length s > 0 && s.[0] = '-' in
  let start = if neg || (String.length s > 0 && s.[0] = '+') then 1 else 0 in
  let acc = ref Z0 in
  for i = start to String.length s - 1 do
    let d = Char.code s.[i] - 48 in
    if d < 0 || d > 9 then failwith ("bad integer: " ^ s);
    acc := Z.add (Z.mul !acc ten) (z_of_int d)
  done;
  if neg then Z.opp !acc else !acc
let string_of_z (x:z) : ostring =
  let neg, a = (match x with Zneg p -> true, Zpos p | _ -> false, x) in
  if a = Z0 then "0" else begin
    let b = Buffer.create 20 in
    let cur = ref a in
    let digits = ref [] in
    while !cur <> Z0 do
      let q = Z.div !cur ten and r = Z.modulo !cur ten in
      digits := int_of_z r :: !digits; cur := q
    done;
    if neg then Buffer.add_char b '-';
    List.iter (fun d -> Buffer.add_char b (Char.chr (48 + d))) !digits;
    Buffer.contents b
  end
let n_of_string s = Z.to_N (z_of_string s)
let string_of_n x = string_of_z (Z.of_N x)
let string_of_bool b = if b then "1" else "0"
let bool_of_string s = (s = "1" || s = "true")

(* Coq strings (String of ascii * string, Ascii of 8 bools) <-> OCaml strings; hex transport "x6162" *)
let ascii_of_char (c:char) : ascii =
  let n = Char.code c in
  let b i = (n lsr i) land 1 = 1 in
  Ascii (b 0, b 1, b 2, b 3, b 4, b 5, b 6, b 7)
let char_of_ascii (a:ascii) : char =
  match a with Ascii (b0,b1,b2,b3,b4,b5,b6,b7) ->
    let v b i = if b then 1 lsl i else 0 in
    Char.chr (v b0 0 + v b1 1 + v b2 2 + v b3 3 + v b4 4 + v b5 5 + v b6 6 + v b7 7)
let coq_of_string (s:ostring) : cstring =
  let r = ref EmptyString in
  for i = String.length s - 1 downto 0 do r := String (ascii_of_char s.[i], !r) done; !r
let string_of_coq (s:cstring) : ostring =
  let b = Buffer.create 16 in
  let rec go = function EmptyString -> () | String (a, t) -> Buffer.add_char b (char_of_ascii a); go t in
  go s; Buffer.contents b
let hex_of_string (s:ostring) : ostring =
  let b = Buffer.create (2 * String.length s + 1) in
  Buffer.add_char b 'x';
  String.iter (fun c -> Buffer.add_string b (Printf.sprintf "%02x" (Char.code c))) s;
  Buffer.contents b
let string_of_hex (h:ostring) : ostring =
  let h = if String.length h > 0 && h.[0] = 'x' then String.sub h 1 (String.length h - 1) else h in
  String.init (String.length h / 2) (fun i -> Char.chr (int_of_string ("0x" ^ String.sub h (2*i) 2)))
let hx (s:cstring) = hex_of_string (string_of_coq s)
let unhx (h:ostring) = coq_of_string (string_of_hex h)
