(* Conversions between decimal strings / OCaml ints and the extracted positive / N / Z / nat. Hand-written glue. *)
open Wfmodel

let rec pos_of_int (n:int) : positive =
  if n <= 1 then XH else if n land 1 = 0 then XO (pos_of_int (n lsr 1)) else XI (pos_of_int (n lsr 1))
let z_of_int (n:int) : z = if n = 0 then Z0 else if n > 0 then Zpos (pos_of_int n) else Zneg (pos_of_int (-n))
let n_of_int (n:int) : n = if n <= 0 then N0 else Npos (pos_of_int n)
let rec nat_of_int (n:int) : nat = if n <= 0 then O else S (nat_of_int (n-1))
let rec int_of_nat (n:nat) : int = match n with O -> 0 | S k -> 1 + int_of_nat k
let rec int_of_pos (p:positive) : int = match p with XH -> 1 | XO q -> 2 * int_of_pos q | XI q -> 2 * int_of_pos q + 1
let int_of_n (x:n) : int = match x with N0 -> 0 | Npos p -> int_of_pos p
let int_of_z (x:z) : int = match x with Z0 -> 0 | Zpos p -> int_of_pos p | Zneg p -> - (int_of_pos p)

(* arbitrary-size decimal parsing / printing through the extracted Z operations (beyond OCaml's 63-bit ints) *)
let ten = z_of_int 10
let z_of_string (s:string) : z =
  let neg = String.length s > 0 && s.[0] = '-' in
  let start = if neg || (String.length s > 0 && s.[0] = '+') then 1 else 0 in
  let acc = ref Z0 in
  for i = start to String.length s - 1 do
    let d = Char.code s.[i] - 48 in
    if d < 0 || d > 9 then failwith ("bad integer: " ^ s);
    acc := Z.add (Z.mul !acc ten) (z_of_int d)
  done;
  if neg then Z.opp !acc else !acc
let string_of_z (x:z) : string =
  let neg, a = (match x with Zneg p -> true, Zpos p | _ -> false, x) in
  if a = Z0 then "0" else begin
    let b = Buffer.create 20 in
    let cur = ref a in
    let digits = ref [] in
    while !cur <> Z0 do
      let q = Z.div !cur ten and r = Z.modulo !cur ten in
      digits := int_of_z r :: !digits; cur := q
    done;
    if neg then Buffer.add_char b '-';
    List.iter (fun d -> Buffer.add_char b (Char.chr (48 + d))) !digits;
    Buffer.contents b
  end
let n_of_string s = Z.to_N (z_of_string s)
let string_of_n x = string_of_z (Z.of_N x)
let string_of_bool b = if b then "1" else "0"
let bool_of_string s = (s = "1" || s = "true")
