(* driver.ml — reads case lines "kind arg... | impl-observation...", recomputes the observation with the
   extracted model and evaluates the extracted property monitor on the IMPLEMENTATION's observation.
   Output:  "DIFF line=<n> case=<lhs> model=[..] impl=[..]"   model and implementation disagree
            "BAD line=<n> case=<lhs> impl=[..] reason=<..>"    the implementation's observation violates the property
            "DONE <cases> <diffs> <bad>"
   With "-emit" it prints "lhs | model observation" for every line instead (replays, debugging). *)
open Wfmodel
open Conv

let split_ws s = List.filter (fun x -> x <> "") (String.split_on_char ' ' s)
let zs l = List.map z_of_string l
let pzs l = List.map string_of_z l

(* kind -> (model observation, monitor on an observation: None = ok, Some reason = violates) *)
let kinds : (ostring, (ostring list -> ostring list) * (ostring list -> ostring list -> ostring option)) Hashtbl.t = Hashtbl.create 64
let reg k m mon = Hashtbl.replace kinds k (m, mon)
let no_monitor _ _ = None
(* for kinds whose expected answer is fixed by the property text itself: disagreement with the model IS the violation *)
let equal_monitor model args obs =
  let m = String.concat " " (model args) in
  if m = String.concat " " obs then None else Some ("property fixes the answer [" ^ m ^ "]")

let () =
  reg "shardset"
    (fun a -> match a with [total; id] -> pzs (shardset (z_of_string total) (z_of_string id)) | _ -> failwith "arity")
    (fun _ obs -> if shardset_ok (zs obs) then None else Some "event not handled by exactly one shard")

let () = Kinds_extra.register reg
let () = Kinds_graph.register reg
let () = Kinds_engine.register reg
let () = Kinds_adapters.register reg

let () =
  if Array.length Sys.argv > 3 && Sys.argv.(1) = "-coqgen" then (Coqprint.emit_coq Sys.argv.(2) (int_of_string Sys.argv.(3)); exit 0);
  if Array.length Sys.argv > 3 && Sys.argv.(1) = "-digests" then (Coqprint.emit_digests Sys.argv.(2) (int_of_string Sys.argv.(3)); exit 0);
  let emit = Array.length Sys.argv > 2 && Sys.argv.(2) = "-emit" in
  let ic = if Array.length Sys.argv > 1 && Sys.argv.(1) <> "-" then open_in Sys.argv.(1) else stdin in
  let cases = ref 0 and diffs = ref 0 and bads = ref 0 and lineno = ref 0 in
  (try
    while true do
      let line = input_line ic in
      incr lineno;
      if String.length line > 0 && line.[0] <> '#' then begin
        let lhs, rhs =
          match String.index_opt line '|' with
          | Some i -> String.sub line 0 i, String.sub line (i+1) (String.length line - i - 1)
          | None -> line, "" in
        match split_ws lhs with
        | [] -> ()
        | kind :: args ->
          incr cases;
          let (mf, monf) = (try Hashtbl.find kinds kind with Not_found -> ((fun _ -> ["UNKNOWN-KIND"]), no_monitor)) in
          let m = (try mf args with Failure e -> ["MODEL-ERROR:" ^ e] | Not_found -> ["MODEL-ERROR:not_found"]) in
          let m_s = String.concat " " m in
          if emit then print_endline (String.trim lhs ^ " | " ^ m_s)
          else begin
            let obs = split_ws rhs in
            let i_s = String.concat " " (if kind = "eng" then Kinds_engine.eng_impl_view obs else obs) in
            if kind <> "engx" && m_s <> i_s then begin
              incr diffs;
              Printf.printf "DIFF line=%d case=%s model=[%s] impl=[%s]\n" !lineno (String.trim lhs) m_s i_s
            end;
            (match (try monf args obs with Failure e -> Some ("unparsable observation: " ^ e) | Not_found -> Some "unparsable observation") with
             | None -> ()
             | Some reason ->
               incr bads;
               Printf.printf "BAD line=%d case=%s impl=[%s] reason=%s\n" !lineno (String.trim lhs) i_s reason)
          end
      end
    done
  with End_of_file -> ());
  Printf.printf "DONE %d %d %d\n" !cases !diffs !bads
