#!/bin/sh
# The repository's own test suite with the verif guard OFF (same command as /root/.vp/BASELINE.json).
for m in $(cat /w/out/gomods.txt); do MF=$(cd /repo/$m && . /w/out/goenv.sh && gomodflag); (cd /repo/$m && go test $MF -json -vet=off -count=1 -timeout 25m ./...); done
