# Per-property configuration of ./check: harness families, assumptions, notes for the evidence file.
STD_TRUSTED = {
    # standard-library axioms that may appear (none is declared by this development)
    "functional_extensionality_dep", "FunctionalExtensionality.functional_extensionality_dep",
    "proof_irrelevance", "ProofIrrelevance.proof_irrelevance", "Classical_Prop.classic", "classic",
    "JMeq_eq", "JMeq.JMeq_eq", "Eqdep.Eq_rect_eq.eq_rect_eq", "eq_rect_eq",
}

PROPS = {
    "C10": {
        "families": ["shard"],
        "assumptions": ["Go's int64 arithmetic is modelled by unbounded Z; the repaired shard filter computes a non-negative remainder whose intermediate values stay within int64 (|id % n| < n)"],
        "explanation": "shard filter: theorem for every integer ID and every n; correspondence on a window, int64 edges, random and hashed IDs",
    },
}
