# Per-property configuration of ./check: harness families, assumptions, notes for the evidence file.
STD_TRUSTED = {
    # standard-library axioms that may appear (none is declared by this development)
    "functional_extensionality_dep", "FunctionalExtensionality.functional_extensionality_dep",
    "proof_irrelevance", "ProofIrrelevance.proof_irrelevance", "Classical_Prop.classic", "classic",
    "JMeq_eq", "JMeq.JMeq_eq", "Eqdep.Eq_rect_eq.eq_rect_eq", "eq_rect_eq",
}

INT = "Go's int/int64 arithmetic is modelled by unbounded Z (wrap-around written explicitly where the property is about it: int32(status))"

ENGINE_ASSUME = [
    "scheduling granularity = operation (one consume iteration / poll cycle / relay cycle / API call); faults at adapter-call granularity (error before/after effect, lease loss, crash)",
    "the engine runs on simulation adapters implementing the reference store/stream/timeout contracts (harness/sim.go = coq/model/EngineBase.v); bundled adapters are tied to the same contracts by C17/C19/C12/C18",
    "user functions are scripts of a small deterministic language interpreted identically by the harness and the model; encoding/json round trip of the object type assumed identity",
    "run IDs / outbox IDs are canonicalised by first appearance (uuid freshness assumed)",
]

PROPS = {
    "C02": {
        "families": ["graph"],
        "assumptions": [INT, "builder calls are modelled as (from, destinations) pairs; AddStep's one-step-per-status panic is outside the model"],
        "explanation": "graph = declared edges for every call list (theorem); real Builder vs model on random call lists and permutations",
    },
    "C03": {
        "families": ["runstate", "graph"],
        "exhaustive": True,
        "assumptions": [INT],
        "explanation": "controller table exhaustively (codes -2..10 x 4 ops; direct and via web UI handler); terminal classification for every call list",
    },
    "C06": {
        "families": ["route"],
        "exhaustive": True,
        "assumptions": [INT, "strconv.FormatInt modelled by stdlib DecimalString (NilZero.string_of_int . Z.to_int), compared on the grid; protobuf encoding of the outbox entry assumed lossless on run_id/type/headers (exercised by decoding every entry)"],
        "explanation": "routing function total over all codes (theorem) + exhaustive grid against MakeOutboxEventData; topic disjointness for every name (theorem) + grid",
    },
    "C10": {
        "families": ["shard"],
        "assumptions": [INT, "the repaired shard filter computes a non-negative remainder whose intermediate values stay within int64 (|id % n| < n)"],
        "explanation": "shard filter: theorem for every integer ID and every n; correspondence on a window, int64 edges, random and hashed IDs",
    },
    "C11": {
        "families": ["engine"],
        "assumptions": ENGINE_ASSUME + ["data-race freedom is a statement about Go's memory model and is not modelled (partial)"],
        "explanation": "engine traces under every single fault placement: lease discipline, survival after errors, open/close balance",
    },
    "C16": {
        "families": ["engine"],
        "assumptions": ENGINE_ASSUME,
        "explanation": "every stored record of every scenario: identity, version+1, description, object hand-over",
    },
    "C13": {
        "families": ["counter"],
        "assumptions": ["the error-counter key err.Error()+process+'-'+runID is modelled as the triple (error, process, run): injectivity of the concatenation on realistic inputs is assumed and exercised"],
        "explanation": "error counter as a map (theorems: Add/Clear touch exactly their key; threshold decision exact) + random op sequences against internal/errorcounter",
    },
}

for _pid, _expl in {
    "C01": "every single fault position (error before/after, lease loss, crash) on the fault-free run of ten workflow programs, random multi-fault runs, recovery rounds; final records compared with the fault-free model run",
    "C04": "cursor rewinds to every position, duplicated events, for every status consumer; version gate observed per delivery",
    "C05": "relay cycles under every fault position among list/new sender/send/close/delete; interleaved writes; outbox limit 1",
    "C07": "every consumer kind x every failure position inside one event's handling; consume lag; back-off",
    "C08": "control operations (API, web UI, from step functions, auto-pause) at every point of a run's progress",
    "C09": "trigger histories on three foreign IDs interleaved with progress, pause, cancel, completion, deletion of current and older runs",
    "C12": "clock before/at/after expiry x progress/cancel/re-trigger/pause-resume; single faults in inserter and poller",
    "C14": "histories with pauses, resumes, cancels, completions, deletions; hook failures and crashes in the hook consumers",
    "C15": "deletion requests at every point of generated histories; custom delete succeeding / failing / absent; crashes in the delete consumer",
}.items():
    PROPS[_pid] = {"families": ["engine"], "assumptions": ENGINE_ASSUME, "explanation": _expl}
for _pid in ("C02", "C03", "C06", "C13"):
    PROPS[_pid]["families"] = PROPS[_pid]["families"] + ["engine"]
    PROPS[_pid]["assumptions"] = PROPS[_pid]["assumptions"] + ENGINE_ASSUME

ADAPTER_ASSUME = ["records are identified by small integers (workflow, foreign ID, run ID); the object is a JSON value carrying one integer; times are offsets on a fixed base instant",
                  "sequential driver: one operation at a time (the adapters serialise every operation under one mutex)"]
PROPS["C17"] = {"families": ["memstore"], "assumptions": ADAPTER_ASSUME + ["domain: a run ID keeps its workflow and foreign ID; List offsets >= 0; outbox limit >= 1 (a limit of 0 returns one entry on memrecordstore and none on SQL: outside 'up to the limit')"],
                "explanation": "memrecordstore vs the reference store: exhaustive short sequences, random long ones with caller mutations after Store / after reads, List grid (offset, limit, order, single and multi-value filters)"}
PROPS["C19"] = {"families": ["memstream"], "assumptions": ADAPTER_ASSUME + ["domain: a receiver name is used with one topic and one StreamFromLatest setting throughout a sequence (memstreamer shares one position per name across topics; the EventStreamer contract does not say whether a position is per topic)",
                                                                            "'Recv would block' is observed with a 15 ms deadline, re-tried once with 120 ms"],
                "explanation": "memstreamer and its connector vs the reference log with per-name positions: exhaustive short sequences, random long ones, empty and pre-filled logs"}
PROPS["C12"]["families"] = ["engine", "memtimeout"]
PROPS["C12"]["assumptions"] = ENGINE_ASSUME + ADAPTER_ASSUME

PROPS["C10"]["families"] = ["shard", "launch"]
PROPS["C10"]["assumptions"] = PROPS["C10"]["assumptions"] + ["launch: hooks are listed in a fixed order in the model; the implementation ranges over a map, so the compared observation is the sorted list of roles",
    "role strings: strings.ToLower modelled on ASCII only (the harness uses ASCII names)"]
PROPS["C10"]["explanation"] += "; launch list and role names: every combination of default / per-step / per-connector parallel count in {0,1,2,3,8} x timeouts x hooks x paused-retry + random configurations, two builds differing only in status display strings"

PROPS["C06"]["families"] = PROPS["C06"]["families"] + ["await"]
PROPS["C06"]["assumptions"] = PROPS["C06"]["assumptions"] + ["await: 'Await has not returned' is observed with a 6 ms wait per published event (30 ms at the end) on the in-memory adapters"]

PROPS["C20"] = {"families": ["engine"], "assumptions": ENGINE_ASSUME + ["robfig/cron is not modelled: the model's cron_next covers the periodic specifications of the harness family (every minute, */15, 0,30, @hourly, @daily) as (period, phase); every deadline the real scheduler computes with cron.ParseStandard(spec).Next is compared with it (TW tokens); @monthly and other non-periodic specifications are outside the model"],
                "explanation": "five cron specifications x all clock-advance sequences up to a depth (1 s, tick-1 s, tick, 3 ticks, 20 s) x filter answers; random histories with older runs, pauses/cancels, lease losses, crashes and adapter faults; invalid specification"}
PROPS["C20"]["families"] = ["engine", "schedrej"]

PROPS["C18"] = {"families": ["sqlstore", "sqltimeout"],
  "assumptions": ADAPTER_ASSUME + ["MySQL is replaced by sqlmini (harness/sqlmini.go): an in-process engine for exactly the statement shapes the two adapters emit, with staged transactions, a strictly increasing statement clock for now(), and a fault at any statement; MySQL's own semantics (isolation, datetime(3) ties in ORDER BY created_at, collation, unordered SELECT without ORDER BY) are not modelled (partial, as the property itself allows: 'a reference SQL engine')",
                                   "CreatedAt is stamped by the database (created_at=now()) and is not compared; ListValid is compared away from the exact expiry instant (SQL uses expire_at < now, the property accepts either answer there); sqltimeout.List (completed=false) is not part of the property and not compared; the event-encoding failure position of Store (MakeOutboxEventData error) is reached with a foreign ID that is not valid UTF-8 (op SB)"],
  "explanation": "sqlstore / sqltimeout on sqlmini vs the reference store / timer list: failure at each statement of Store (begin, select, insert|update, outbox insert, commit) for new and existing runs, random sequences, List filter/order/limit/offset grid, statement log (one transaction on the writer, placeholders = arguments)"}

# C05's first clause ("every record write leaves exactly one pending outbox entry", anchored in memrecordstore.Store): the in-memory
# store's Store is atomic also when the entry cannot be built (op SB: foreign ID that is not valid UTF-8)
PROPS["C05"]["families"] = ["engine", "memstore"]
PROPS["C05"]["assumptions"] = PROPS["C05"]["assumptions"] + ADAPTER_ASSUME
PROPS["C05"]["explanation"] += "; memrecordstore.Store vs the reference store incl. Stores whose outbox entry cannot be encoded (nothing stored)"
PROPS["C11"]["families"] = ["engine", "memroles"]
PROPS["C11"]["assumptions"] = PROPS["C11"]["assumptions"] + ["memrolescheduler: goroutine / mutex semantics are modelled as a transition system (coq/model/MemRoles.v), not Go's memory model; the harness observes overlap with counters under real goroutine schedules (an acceptor: the winner among waiters is not determined)"]

PROPS["C07"]["families"] = ["engine", "connrt"]
PROPS["C07"]["assumptions"] = PROPS["C07"]["assumptions"] + ["connector round trip: encoding/json is not modelled; dec(enc e) = e is a Section hypothesis of the Coq theorem and is what the connrt family exercises on the real connectorEventToEvent / streamerEventToConnectorEvent (valid UTF-8 strings incl. characters JSON escapes, nil / empty / several headers, timestamps with nanoseconds in six zones, compared as instants); strings that are not valid UTF-8 are outside the domain (JSON replaces them); FNV-1 64 is modelled in Coq (model/Connector.v) and compared on every event, also for several events through one hasher"]
PROPS["C07"]["explanation"] += "; connector events through the real wrap/unwrap functions: every field compared, event ID = int64(fnv64(ID))"
PROPS["C10"]["families"] = ["shard", "launch", "connrt"]
PROPS["C10"]["explanation"] += "; connector event IDs: int64(fnv64(ID)) of the real conversion (also several events through one hasher, as a connector consumer process does) vs the Coq model of FNV-1"

PROPS["C10"]["families"] = ["shard", "launch", "connrt", "engine"]
PROPS["C10"]["assumptions"] = PROPS["C10"]["assumptions"] + ENGINE_ASSUME
PROPS["C10"]["explanation"] += "; connector consumers in the engine harness (1..3 shards, default count, two instances) under faults, crashes and rewinds: every connector event handled by exactly its own shard"

# two workflows sharing the bundled in-memory adapters (real goroutines): roles, receiver names, topics, timers and outbox listings
# must keep them apart; the answer each gives alone is what the engine theorems say of one workflow
for _pid in ("C01", "C06", "C10", "C14", "C15"):
    PROPS[_pid]["families"] = PROPS[_pid]["families"] + ["twowf"]
    PROPS[_pid]["explanation"] += "; two workflows of different names on ONE in-memory streamer / record store / role scheduler / timeout store: every run of both completes, every hook runs to success and every requested deletion is served by the custom delete function"
    PROPS[_pid]["assumptions"] = PROPS[_pid]["assumptions"] + ["twowf: real goroutines on the in-memory adapters; 'completed' is awaited with a bound (4 s, repeated once with 15 s; a rejected case is re-run by check)"]

# C09 composed with the bundled store: Trigger on the real memrecordstore while older runs are written again
PROPS["C09"]["families"] = PROPS["C09"]["families"] + ["trgmem"]
PROPS["C09"]["explanation"] += "; Workflow.Trigger on the real memrecordstore interleaved with run-state writes to earlier runs"
# C09 composed with the SQL store: Trigger takes ErrRecordNotFound from Latest for "no run yet"; a Latest whose result set breaks while
# it is streamed must answer with an error (the sqlstore family's RF reads), else a second unfinished run is created
PROPS["C09"]["families"] = PROPS["C09"]["families"] + ["sqlstore"]
PROPS["C09"]["explanation"] += "; the SQL record store on the statement-level SQL engine, including reads whose result set breaks while it is streamed (Latest must answer with an error, not with not-found)"
PROPS["C09"]["assumptions"] = PROPS["C09"]["assumptions"] + ADAPTER_ASSUME
